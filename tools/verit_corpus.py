"""Regression gauge for changes to smt/veriT: replays solver-produced veriT proofs (generated beforehand with the veriT binary that
ships inside the tlapm distribution) through ProofReconstruction in eval mode and prints, per file, OK / the failing exception.

usage: verit_corpus.py <dir with NAME.proof files> [max_bytes] [--expand]     (NAME = path below smt/veriT/example with / -> __)
Only a development aid: no registered check depends on it."""
import os
import sys
import multiprocessing

sys.path.insert(0, '/verif')
REPO = os.environ.get('VERIF_REPO', '/repo')


def work(job):
    path, smt2, mode = job
    import io
    import contextlib
    import signal
    from mc import engine
    engine.import_holpy()
    sys.setrecursionlimit(10000)
    from logic import basic
    from smt.veriT import proof_parser, proof_rec, command
    basic.load_theory('verit')

    def alarm(*a):
        raise TimeoutError('timeout')
    signal.signal(signal.SIGALRM, alarm)
    try:
        signal.alarm(120)
        with contextlib.redirect_stdout(io.StringIO()):
            text = open(path).read()
            ctx = proof_rec.bind_var(smt2)
            parser = proof_parser.proof_parser(ctx)
            steps = []
            for s in text.replace('\r', '').split('\n'):
                if s == 'unsat' or s == '':
                    continue
                step = parser.parse(s)
                if isinstance(step, command.Step) and step.rule_name == 'lia_generic':
                    return (path, 'lia_generic', 0)
                steps.append(step)
            recon = proof_rec.ProofReconstruction(steps, smt_assertions=set())
            pt = recon.validate(is_eval=(mode == 'eval'), with_bar=False, test_expand=(mode == 'expand'))
            return (path, 'OK' if pt.rule != 'sorry' else 'sorry', len(steps))
    except BaseException as e:
        return (path, '%s: %s' % (type(e).__name__, str(e)[:150].replace('\n', ' ')), 0)
    finally:
        signal.alarm(0)


def main():
    d = sys.argv[1]
    cap = int(sys.argv[2]) if len(sys.argv) > 2 and sys.argv[2].isdigit() else 300000
    mode = 'expand' if '--expand' in sys.argv else ('proofterm' if '--proofterm' in sys.argv else 'eval')
    jobs = []
    for f in sorted(os.listdir(d)):
        if not f.endswith('.proof'):
            continue
        p = os.path.join(d, f)
        if os.path.getsize(p) == 0 or os.path.getsize(p) > cap:
            continue
        smt2 = os.path.join(REPO, 'smt/veriT/example', f[:-6].replace('__', '/'))
        jobs.append((p, smt2, mode))
    with multiprocessing.Pool(16, maxtasksperchild=4) as pool:
        res = pool.map(work, jobs, chunksize=1)
    ok = 0
    for path, st, n in res:
        print('%-70s %s %s' % (os.path.basename(path)[:70], st, n or ''))
        ok += st == 'OK'
    print('TOTAL %d files, OK %d' % (len(res), ok))


if __name__ == '__main__':
    main()
