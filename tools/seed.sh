#!/bin/bash
# usage: seed.sh <PROP> <variant> [check ids...]   e.g. seed.sh C15 a C15
# Validates a sub-agent's seeded change (/tmp/seed/<PROP>-out/<variant>/) on scratch copies of /repo's HEAD:
#   demo passes without / fails with the patch, 600/600 baseline tests pass with it, and runs the named checks
#   (quick tier) against the patched scratch copy.  Stores everything under /verif/seeded/<PROP>-<variant>/.
P=$1; X=$2; shift 2; CHECKS=${@:-$P}
SRC=/tmp/seed/$P-out/$X; [ -f $SRC/patch.diff ] || SRC=/verif/seeded_pending/$P-$X; [ -f $SRC/patch.diff ] || SRC=/verif/seeded/$P-$X
DST=/verif/seeded/$P-$X
[ -f $SRC/patch.diff ] || { echo "no $SRC/patch.diff"; exit 2; }
S=$(mktemp -d /tmp/seedchk-XXXXXX)
git -C /repo archive HEAD | tar -x -C $S
cd $S
run_demo() { (cd $S && PYTHONPATH=$S PYTHONHASHSEED=0 timeout 600 /venv/bin/python -W ignore $SRC/demo.py >/tmp/seed/$P-$X.demo.log 2>&1; echo $?); }
D0=$(run_demo)
if ! git -C $S apply --check $SRC/patch.diff 2>/dev/null && ! (cd $S && patch -p1 --dry-run -s < $SRC/patch.diff >/dev/null); then echo "PATCH DOES NOT APPLY"; rm -rf $S; exit 2; fi
(cd $S && patch -p1 -s < $SRC/patch.diff)
D1=$(run_demo)
echo "demo without patch: exit $D0; with patch: exit $D1"
T=$(timeout 900 /verif/tools/repo_tests.sh $S | head -3 | tr '\n' ' ')
echo "tests with patch: $T"
mkdir -p $DST
[ "$SRC" = "$DST" ] || cp $SRC/patch.diff $SRC/demo.py $DST/
[ "$SRC" != "$DST" ] && [ -f $SRC/notes.md ] && cp $SRC/notes.md $DST/
RES=""
for c in $CHECKS; do
  cp /verif/evidence/$c.json /tmp/seed/evidence-$c.$$.json 2>/dev/null
  OUT=$(cd /verif && VERIF_REPO=$S timeout 1500 ./check $c --tier quick 2>&1 | grep -v '^KNOWN' | cut -c1-300)
  # the evidence file must describe /repo, not the patched copy: put the previous one back
  [ -f /tmp/seed/evidence-$c.$$.json ] && mv /tmp/seed/evidence-$c.$$.json /verif/evidence/$c.json
  RC=$(echo "$OUT" | grep -c '^VIOLATION')
  echo "check $c on patched tree: $RC VIOLATION lines"; echo "$OUT" | grep '^VIOLATION' | head -3; echo "$OUT" | tail -1
  RES="$RES $c:$RC"
done
cd /verif
/venv/bin/python - "$P" "$X" "$D0" "$D1" "$T" "$RES" <<'PY'
import json, sys, os
P, X, d0, d1, t, res = sys.argv[1:7]
dst = '/verif/seeded/%s-%s' % (P, X)
meta = {}
mp = os.path.join(dst, 'meta.json')
if os.path.exists(mp):
    meta = json.load(open(mp))
meta.update({'property': P, 'variant': X, 'source': 'independent sub-agent given only the property text and a scratch worktree',
             'demo_exit_without_patch': int(d0), 'demo_exit_with_patch': int(d1), 'repo_tests_with_patch': t.strip(),
             'quick_checks_violation_lines': {k: int(v) for k, v in (r.split(':') for r in res.split())},
             'ran': 'tools/seed.sh %s %s (scratch copy of /repo HEAD, VERIF_REPO=<copy> ./check <id> --tier quick)' % (P, X)})
meta.setdefault('needs_to_manifest', 'see notes.md')
json.dump(meta, open(mp, 'w'), indent=1)
print(json.dumps(meta['quick_checks_violation_lines']))
PY
rm -rf $S
