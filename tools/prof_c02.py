import sys, time, collections
sys.path.insert(0, '/verif')
from mc.engine import import_holpy
import_holpy()
from mc.props import c02
c02.setup('quick')
t = time.time()
n = 0
acc = 0
h = collections.Counter()
states = []
for item in c02.flat_items((0,), ()):
    a, o = c02.judge((item,))
    n += 1
    acc += a
    h[o.cls] += 1
    if a and o.violation is None:
        states.append((item,))
print('flat level1', n, acc, round(time.time() - t, 2), dict(h))
t = time.time()
n = 0
for item in c02.block_items(0, ()):
    n += 1
print('block menu size', n, round(time.time() - t, 2))
t = time.time()
n = 0
acc = 0
h = collections.Counter()
for st in states[:10]:
    for item in c02.flat_items((1,), st):
        a, o = c02.judge(st + (item,))
        n += 1
        acc += a
        h[o.cls] += 1
print('flat level2 from 10 states', n, acc, round(time.time() - t, 2), dict(h), 'nstates', len(states))
print('---- level1 details')
for item in c02.flat_items((0,), ()):
    a, o = c02.judge((item,))
    if o.cls in ('rejected-but-reference-accepts', 'ACCEPTED-UNJUSTIFIED', 'accepted-undetermined'):
        print(o.cls, c02.show_items((item,)), (o.violation or {}).get('what', '')[:150].replace('\n', ' | '))
        if o.cls.startswith('rejected-but'):
            print('    real:', c02.real_check((item,), False))
