"""debug helper: run shard 0 of a property in-process with a traceback dump after N seconds"""
import sys
import faulthandler
sys.path.insert(0, '/verif')
faulthandler.dump_traceback_later(int(sys.argv[3]) if len(sys.argv) > 3 else 60, exit=True)
from mc import engine
engine.worker_main([sys.argv[1], sys.argv[2], '0', sys.argv[4] if len(sys.argv) > 4 else '16', '/tmp/one_worker.json'])
print(open('/tmp/one_worker.json').read()[:3000])
