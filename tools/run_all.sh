#!/bin/bash
# usage: run_all.sh <quick|thorough> [ids...]    runs the registered checks one after the other and prints one line per check
# (development aid; MANIFEST.json registers the individual ./check commands)
cd "$(dirname "$0")/.."
TIER=${1:-quick}; shift
IDS=${@:-C01 C02 C03 C04 C05 C06 C07 C08 C09 C10 C11 C12 C13 C14 C15 C16 C17 C18 C19 C20}
for id in $IDS; do
  S=$(date +%s)
  OUT=$(timeout ${CHECK_TIMEOUT:-3600} ./check $id --tier $TIER 2>&1)
  RC=$?
  E=$(( $(date +%s) - S ))
  NV=$(echo "$OUT" | grep -c '^VIOLATION')
  NK=$(echo "$OUT" | grep -c '^KNOWN-FINDING')
  echo "$id tier=$TIER rc=$RC wall=${E}s violations=$NV known=$NK :: $(echo "$OUT" | tail -1 | cut -c1-260)"
  echo "$OUT" | grep '^VIOLATION' | head -5 | cut -c1-300
done
