#!/venv/bin/python
"""Regenerates /verif/MANIFEST.json from the table below and validates it against the schema."""
import json
import os
import sys

V = os.path.dirname(os.path.dirname(os.path.abspath(__file__)))

# id -> (category, technique, level text, level note, design ref)
CLAIMED = {
    'C15': ('exploration',
            'bounded exhaustive enumeration of CNFs/formulas on the real solver, truth-table + resolution-replay oracle',
            'Every CNF over 3 variables up to the tier bound (ordered clauses, duplicate/complementary literals, empty clause) is '
            'run through prover.sat.solve_cnf and every formula up to the bound through tseitin.encode; verdict, assignment, '
            'resolution trace, termination, checker acceptance and equisatisfiability are judged by an independent brute-force oracle.',
            'Trusted: my truth table / resolution replay (60 lines); kernel checker for the Tseitin theorem. Says nothing about >3 variables.',
            'DESIGN.md §3 C15'),
    'C01': ('exploration',
            'bounded exhaustive saturation of primitive-rule derivation trees on the real checker, finite-model oracle',
            'All derivation trees of height<=3 over the 15 primitive rules and the base-logic axioms, with rule arguments from an '
            'adversarial alphabet (built as maximally shared objects: one python object may sit under two binder depths), are linearised to Proof objects and given to theory.check_proof(no_gaps=True) (twice: the result '
            'must not depend on history); every distinct accepted sequent is type-checked by a reference checker and evaluated in '
            'all standard models with carriers of size <=2 (thorough <=3).',
            'Trusted: mc/holsem.py (finite-model evaluator, self-tested on the base-logic axioms and on invalid sequents), mc/ref.py. '
            'Finite models only refute; last-layer premises are bounded by sequent size; Some/The axioms are not used.',
            'DESIGN.md §3 C01'),
    'C02': ('model_checking',
            'explicit-state BFS over proof objects executed on the real checker, reference-checker + semantic oracle',
            'States are proof objects accepted by the real checker, transitions append one item from a menu that covers ids '
            'disagreeing with positions, forward/self/foreign/closed-block citations, exact/weaker/stronger/unrelated stated '
            'sequents, placeholders, blank lines, nested blocks and macro steps (incl. macros whose expansion holds a placeholder); '
            'every transition runs theory.check_proof with gaps allowed and disallowed and is compared with a position-based '
            'reference checker, the finite-model oracle and gap accounting; plus all (stated theorem, proof) pairs of checked_extend '
            '(incl. proofs citing the theorem being introduced; after a refusal the name must be absent and not citable).',
            'Trusted: the reference checker in mc/props/c02.py (7 rules over one boolean variable), mc/holsem.py. States are merged '
            'by the table path -> (id, sequent, placeholder?, block?) (argument in state_key). Depth 3; thorough uses the full flat-item menu also at depth 3 (menus in bounds).',
            'DESIGN.md §3 C02'),
    'C03': ('exploration',
            'bounded exhaustive enumeration of terms/instantiations/object histories on the real Term/Type classes, reference-term oracle',
            'All ordered pairs/triples of the smallest well-typed terms and types (with alpha-variants and same-name-different-type atoms) '
            'for ==, hash and the term order; every term x every instantiation of <=2 variables (closed and open values) for subst, '
            'subst_type, subst_bound, beta_conv, beta_norm, abstract_over/Lambda, incr_boundvars on tree-shaped and on maximally '
            'shared (DAG) objects; all histories of <=4 (thorough 5) object events new/copy-construct/copy/drop/gc/hash/compare.',
            'Trusted: mc/ref.py (textbook de Bruijn operations, validated against the finite-model semantics in the self test). CPython '
            'address reuse is observed, not controlled. Terms up to size 6 (thorough 8).',
            'DESIGN.md §3 C03'),
    'C09': ('exploration',
            'bounded exhaustive enumeration of pattern/target/seed triples on the real matcher, reference beta-eta normaliser',
            'Every well-typed pattern up to the size bound (first-order, Miller, non-pattern applications, repeated and polymorphic '
            'schematic variables, binders named x/y in all combinations) is matched against all of its instances under a value universe, '
            'all one-leaf perturbations of those instances and small unrelated terms, with empty / compatible / incompatible seeds; a '
            'success must reproduce the target up to beta-eta, extend and not modify the seed; first-order patterns must match their instances.',
            'Trusted: mc/ref.py (substitution, beta-eta normal forms). Only type-compatible pairs. Pattern size <=6 (thorough 7).',
            'DESIGN.md §3 C09'),
    'C08': ('exploration',
            'bounded exhaustive enumeration of typed terms x erasure patterns x contexts and of untyped skeletons on the real type inference',
            'Every well-typed term up to the size bound over the signature of theory list, with every erasure pattern of its '
            'annotations and contexts declaring all/none/one variable, plus conflicting annotations, plus all untyped skeletons up '
            'to the bound (incl. occurs-check cycles spread over three unifications) are given to infertype.type_infer; the result '
            'must type-check, keep shape/annotations/declared types, give each variable one type, use constants at instances of '
            'their declarations, contain no internal type variable, recover the original when variable types are declared, and '
            'failures must be the module\'s own errors (no RecursionError, no hang).',
            'Trusted: reference type checker in mc/ref.py; theory signature as loaded. Term size <=6 (thorough 7), skeletons <=3 (4) applications.',
            'DESIGN.md §3 C08'),
    'C07': ('exploration',
            'bounded exhaustive enumeration of operator/binder nestings x printer configurations on the real printer and parser',
            'Every operator, binder and special form of the signature of theory real applied to leaves, every such form in every '
            'argument position of every other form (thorough: depth 3 along the spines), all binder nests of depth<=3 with clashing '
            'names, polymorphic constants in (un)determined positions, under unicode x line_length{None,20,80} x highlight; types, '
            'sequents, instantiations and proof steps of every argument signature; print histories with alpha-variants. parse(print(t)) '
            'must equal t (reference alpha-equality and holpy ==).',
            'Trusted: mc/ref.py; generated terms are filtered by thy.check_term and the reference type checker (dropped ones are counted). '
            'Nesting depth 2 (thorough 3).',
            'DESIGN.md §3 C07'),
    'C17': ('model_checking',
            'explicit-state exploration of all merge/test/explain sequences on the real congruence-closure objects, naive-closure oracle',
            'All sequences of <=4 (thorough 5; 4 over four constants) merges of flat equations x=y / f(x,y)=z are replayed on fresh '
            'CongClosure objects; after every prefix every pair is queried with test and explain (queries interleaved with merges), compared '
            'with a naive fixpoint closure, explanation paths are replayed, and the structure must be unchanged by queries. The HOL wrapper '
            'is explored with all sequences of <=3 merges over curried terms; every explanation is exported and checked by the kernel '
            '(conclusion, hypotheses/gaps among the merged equations).',
            'Trusted: naive closure (complete for ground EUF on the finite universe), kernel checker. No state merging.',
            'DESIGN.md §3 C17'),
    'C16': ('exploration',
            'bounded exhaustive enumeration of small linear systems on the real Omega test and simplex, witness/box/Fourier-Motzkin oracle',
            'Every system of <=3 rows over 2 variables and <=2 rows over 3 variables with small integer entries (zero rows, duplicates, '
            'equalities as pairs, unbounded directions, rows with a common factor) is given to omega.solve_matrix and, in both '
            'orientations, to simplex.Simplex; SAT answers are judged by evaluating the witness, contradictions by exhaustive '
            'search in a box (integers) resp. exact Fourier-Motzkin (rationals); contradictions of <=2-row systems are also '
            'produced through OmegaHOL and the proof is checked by the kernel (conclusion false, hypotheses among the constraints). '
            'Second family: every system of 2 (and 3 ordered) rows a*x + b*y OP k with OP in <=, >=, <, > is given to SimplexMacro, '
            'StrictSimplexMacro (proof kernel-checked, hypotheses among the given constraints, never from a feasible system) and '
            'simplex_strict.Simplex (delta-witness evaluated exactly); inside the box -2..2 to Simplex + branch_and_bound and '
            'IntegerSimplexMacro (box search is exact there).',
            'Trusted: direct evaluation, box search, (strict) FM elimination, kernel checker. Exceptions/NOCONCL are "no verdict". '
            'Branch-and-bound is driven only on boxed systems (it need not terminate otherwise); a node cap (400) would be reported as cap.',
            'DESIGN.md §3 C16'),
    'C20': ('exploration',
            'bounded exhaustive enumeration of annotated while-programs x initial states on the real VC generator and evaluator, interpreter oracle',
            'All programs over skip/assignment/sequence/conditional/annotated loop up to the tier shapes, with expressions, conditions, '
            'invariants and pre/postconditions from grammars containing every bracketing-sensitive shape (incl. unary minus in every '
            'operand position), and all initial states in '
            '{-2..3}^2: loop-free wp agrees with execution pointwise; for loop programs valid VCs (z3 on an independent encoding) plus a '
            'terminating run from a pre-state that misses the post is a violation; every displayed VC is re-parsed and must mean the '
            'same as the computed HOL condition; imp.eval_Sem proofs are kernel-checked and the proved final state equals the interpreter\'s.',
            'Trusted: own interpreter/evaluators, z3 for the universal hypothesis of loop VCs (unknown => undecided), kernel checker. '
            'Two integer variables, grid -2..3, loop unrolling <=60.',
            'DESIGN.md §3 C20'),
    'C05': ('exploration',
            'bounded exhaustive enumeration of ground arithmetic goals x all level-0 arithmetic macros through the real checker, exact-arithmetic oracle',
            'Every ground expression with <=2 operators over adversarial numerals (huge, near-equal, non-normal fractions, zero divisors) '
            'at nat, int and real, compared by every relation with the exact value, value+1, the value under the other type\'s semantics '
            'and 0, is offered to every level-0 arithmetic macro in a one-step check_proof; every accepted sequent is evaluated exactly '
            '(truncated subtraction, x/0=0, Fractions). real_norm is additionally run on polynomial identities with real and nat '
            'variables (grid refutation), const_inequality on goals with irrational constants (sympy zero-test / 50-digit sign).',
            'Trusted: mc/numeric.py; sympy for irrational goals (undecided unless exact zero or |difference| > 1e-30). '
            'Known open finding F-C05-3 (float comparison of irrational constants) is listed by exact goals.',
            'DESIGN.md §3 C05'),
    'C12': ('model_checking',
            'explicit-state exploration of loader histories with fault injection on the real theory loader, history-free reference',
            'All histories of <=3 (thorough 4) loader events over a scratch library of five theories (loads with every kind of limit, '
            'file edits with later and earlier modification times, loads interrupted by an injected parse fault at the first/last item, '
            'import cycle on/off, a file rewritten with a different import list) are executed on the real loader; after every load that returns, the complete theory state is compared '
            'with a history-free load of the same files, and loads that must fail must raise. A second family runs [import M; load T] '
            'and [load T; load T] histories over the real library in fresh interpreter processes.',
            'Trusted: the history-free reference is the same loader with emptied caches, cross-checked against truly fresh processes. '
            'Edits that keep the mtime are out of scope. Real-library family: 10 (thorough 40) process histories.',
            'DESIGN.md §3 C12'),
    'C11': ('exploration',
            'exhaustive pass over all library items plus bounded exhaustive enumeration of generated items on the real item parser, reference side conditions + finite-model oracle',
            'Every item of the 43 library files is parsed in its own context, its extensions are type-checked over the extended '
            'signature and exported/displayed and parsed back (file and editor forms, in the context before the item). Generated '
            'definitions (every argument list and right-hand side of a grammar containing self-reference, extra free variables, '
            'non-variable and repeated arguments, absent type variables, other type instances, overloaded names), two-step '
            're-definitions, inductive predicates/functions/datatypes over fresh and overloaded names: an accepted definition must '
            'satisfy the four side conditions and admit an interpretation in every finite model.',
            'Trusted: reference side conditions and mc/holsem.py. Generated families are small grammars, not all of HOL.',
            'DESIGN.md §3 C11'),
    'C13': ('model_checking',
            'explicit-state BFS over editing histories of the real ProofState (live replay + copy application), invariant checking in every state',
            'From 16 generated goals, with two menus per goal (wide: selections of <=2 facts, all parameterised operations; narrow: <=1 fact, cut and introduction only, one step deeper), every suggestion of search_method for every gap and every selection of <=2 visible facts plus '
            'cut/cases/introduction/new_var with parameters from a state-derived menu; plus every prefix of the recorded steps of the '
            'library proofs of the tier. In every reached state: full re-check with gaps == placeholders, last line == stated goal, '
            'ids == positions, citations earlier and visible, finished proofs pass no_gaps=True, export/re-import gives the same lines '
            'and result, copies are isolated, histories replay identically on a fresh state.',
            'States merged by (variables, exported proof). z3 switched off. revert_intro and cut/cases with a formula that already is '
            'the statement of a line are not in the menu (see DESIGN.md §5: they expose preconditions the editor does not check). '
            'Depth 3 (wide) / 4 (narrow), 2500 / 4000 states per goal and menu (thorough: 5000 / 8000 and library theory set in addition); caps that are reached are named in the evidence (x_cap_hit). Open findings F-C13-5/6 (thorough only).',
            'DESIGN.md §3 C13'),
    'C14': ('model_checking',
            'the C13 state graph; every (state, goal line, fact selection, suggestion) is executed on a copy and compared with what it advertised',
            'For every reached state and every library-proof prefix: every entry returned by search_method without open declared '
            'parameters must apply or ask for named parameters; afterwards the new open goals are among the advertised ones, a '
            '"solves" entry leaves none, advertised facts are proved lines, and the full re-check succeeds.',
            'Suggestions with open declared parameters are only counted; suggestions are judged only in states that are themselves checkable. Known open finding F-C14-1 (eta-contracted goals and someI).',
            'DESIGN.md §3 C14'),
    'C10': ('exploration',
            'bounded exhaustive enumeration of expressions/formulas/lambda-terms on the real conversions, polynomial / member-set / finite-model oracles',
            'Arithmetic normalisers on every expression with <=2 (thorough 3) operators grouped by own polynomial normal form '
            '(canonicity and idempotence for naturals and reals), propositional normalisers on all formulas / all conjunction and '
            'disjunction trees grouped by member sets, traversal combinators with rewr_conv/beta/eta on all lambda-terms of size <=5 '
            '(6). Every returned proof term is an equation whose left side is the input, with hypotheses among the supplied '
            'conditions, accepted by the kernel with the same sequent, agreeing with eval, and valid in finite models.',
            'Trusted: own polynomial normal form, mc/ref.py, mc/holsem.py, kernel checker. Subtraction on naturals and division are '
            'outside the generated expressions.',
            'DESIGN.md §3 C10'),
    'C06': ('exploration',
            'bounded exhaustive enumeration of goals and solver sessions on the real z3/sympy steps, bounded-evaluation and independent-encoding oracles',
            'Every goal Q1 v1. Q2 v2. (A op B) and its negation, with A, B from per-type atom pools (nat with truncated subtraction, int, '
            'real with division, division by zero and non-normal literals, min/max/abs, function application and equality, if-then-else), '
            'each variable free, universally or existentially bound, is given to z3wrapper.solve and the z3 macro. Every SymPy session '
            '(one goal under no premise / an open and a closed interval in both orders, because the solver memoises) is given to the '
            'sympy macro. Every accepted goal is judged: a falsifying valuation on a grid is definitive; otherwise an independent '
            'encoding of the negation must not be satisfiable for both z3 and cvc5.',
            'Trusted: mc/numeric.py exact evaluation, own sympy evaluator with HOL conventions (x / 0 = 0), z3 python API and cvc5 as '
            'reference solvers. Harness bound: a z3 call that does not answer within 1.5 s counts as not accepted. Goals outside the '
            'atom pools (sets, of_nat of variables, transcendental functions other than sin/sqrt) are not explored.',
            'DESIGN.md §3 C06'),
    'C04': ('exploration',
            'bounded exhaustive enumeration of macro invocations (library corpus, complete 1-deviation neighbourhoods, generated inputs, two-invocation sessions) on the real macros and the real checker',
            'For every macro step of the replayed library theories of the tier, every 1-deviation of it (premise dropped / duplicated / '
            'swapped / given a hypothesis, term argument replaced by a subterm or a premise), every generated input of the logic, nat '
            '(also on int numerals) and int macros, and every ordered pair of invocations of the memoising auto macro: whenever eval succeeds and the expansion '
            'is produced, the checker accepts the expansion at the default level, its conclusion is the one eval reports, it has no '
            'hypothesis eval does not report, and it rests on no unproved statement other than the premises.',
            'Trusted: the proof checker (C01/C02), kernel term equality. Level-0 macros are never expanded by the default checker and '
            'are outside the property (C05/C06 cover them). Macros whose lookup itself fails (int_ineq* have no .limit attribute) are counted, not judged.',
            'DESIGN.md §3 C04'),
    'C18': ('exploration',
            'bounded exhaustive enumeration of (clause, premises) tuples for every veriT rule, and of the complete 1-deviation neighbourhood of every step of stored solver-produced proofs, on the real rule evaluators; finite-model and independent-encoding oracles',
            'Layer A: for every registered veriT rule, every clause of <=2 literals with every premise list of <=1 formulas from a pool '
            '(plain and under a hypothesis), every clause of <=3 literals and every premise pair from a reduced pool, is given to '
            'macro.eval; every rule also gets every equation of an arithmetic pool (right and wrong simplifications at int and real). Layer B: every step of the stored solver proofs of the tier (corpus/verit: 151 proofs produced by veriT 2021.06 '
            'on the repository\'s examples, 76 rules) and each of its near misses (literal dropped / negated / swapped / inner component '
            'dropped / sides swapped, premise dropped / negated / shortened / swapped, coefficient perturbed, clause size changed). Every '
            'accepted tuple is judged: premises (with their hypotheses) must entail the returned clause in all finite models with '
            'carriers of size 1-2, or the independent quantifier-free encoding of premises and negated clause must be unsatisfiable.',
            'Trusted: mc/holsem.py, mc/smtenc.py (z3 as reference on quantifier-free formulas, model re-evaluated), mc/numeric.py. '
            'Accepted steps whose validity cannot be decided within the bounds (quantified formulas over large signatures, let/bind/sko '
            'contexts) are counted as undecided per rule in the evidence, not judged. Steps larger than 600 (thorough 3000) term nodes are skipped.',
            'DESIGN.md §3 C18'),
    'C19': ('exploration',
            'bounded exhaustive enumeration of calculator steps (every recorded step of the example files; every generated expression x rule x parameter) on the real rules, numeric-value oracle on a deterministic grid',
            'Every step of every calculation of the example files reachable from the five books is re-applied to the recorded previous '
            'expression in its context; every generated expression (<=1, thorough <=2 operators over x, a, numerals, pi and 12 '
            'functions) gets FullSimplify, Simplify, ExpandPolynomial, SimplifyPower, deriv and a print/parse round trip; every generated '
            'definite integral gets Linearity, DefiniteIntegralIdentity, SplitRegion, ElimInfInterval, 8 substitutions, 7 inverse '
            'substitutions and 81 integration-by-parts pairs, followed by FullSimplify of the result; every generated limit gets '
            'LHopital, ReduceLimit, FullSimplify. The value before and after must agree at every admissible grid point where both can '
            'be computed reliably (equations by residual, antiderivatives by increments).',
            'Trusted: mpmath (quadrature with error estimate, 30 and 50 digits), mc/intnum.py. Steps whose value cannot be computed '
            'reliably (divergent / slowly convergent integrals and series, values above 1e9, unknown special functions, complex values) '
            'are counted as undecided per rule in the evidence. A wrong step whose error is below 1e-6 on the whole grid is missed.',
            'DESIGN.md §3 C19'),
}

PENDING_REASON = 'check not built yet in this round (planned, see DESIGN.md §3/§7); not claimed until its machinery exists'


def main():
    props = [json.loads(l) for l in open(os.path.join(V, 'properties.jsonl'))]
    checks = []
    na = []
    for p in props:
        pid = p['id']
        if pid in CLAIMED:
            cat, tech, text, note, ref = CLAIMED[pid]
            checks.append({
                'property_id': pid,
                'quick_cmd': './check %s --tier quick' % pid,
                'thorough_cmd': './check %s --tier thorough' % pid,
                'evidence_file': 'evidence/%s.json' % pid,
                'replay_cmd_template': './check %s --replay {path}' % pid,
                'engine': 'mc/engine.py + mc/props/%s.py' % pid.lower(),
                'level_claimed': {'category': cat, 'text': text, 'design_ref': ref},
                'level_note': note,
                'technique': tech,
            })
        else:
            na.append({'property_id': pid, 'reason': NA.get(pid, PENDING_REASON)})
    man = {
        'version': 1,
        'setup_cmd': 'chmod +x /verif/check /verif/tools/*.sh && mkdir -p /verif/out /verif/evidence && ./check --selftest',
        'hooks': {
            'guard': 'BZHAN_HOLPY_VERIF',
            'enable': 'no hooks in /repo: the checks import holpy from the working tree (PYTHONPATH=/repo) and reach every seam by '
                      'setting module attributes from the harness',
            'baseline_off_cmd': 'cd /repo && /venv/bin/python -m pytest -ra -q -p no:cacheprovider --timeout=900 --continue-on-collection-errors',
            'source_commits': [],
            'add_only': True,
        },
        'engines': [
            {'name': 'E1/E2 explorer', 'path': 'mc/engine.py', 'serves_properties': sorted(CLAIMED),
             'kind_free_text': 'sharded exhaustive enumeration of bounded input spaces (E1) and explicit-state BFS over the real '
                               'transition functions (E2), 16 worker processes with fixed PYTHONHASHSEED, per-case watchdog, '
                               'determinism self-check, known-findings matching'},
        ],
        'checks': checks,
        'notes': 'Exit codes: 0 held / only known findings; 1 VIOLATION; 2 check itself broken (determinism or vacuity guard). '
                 'VERIF_SEED selects PYTHONHASHSEED of the workers (no sampling is used anywhere).',
        'not_applicable': na,
    }
    import jsonschema
    schema = json.load(open('/root/.vp/MANIFEST.schema.json'))
    jsonschema.validate(man, schema)
    with open(os.path.join(V, 'MANIFEST.json'), 'w') as f:
        json.dump(man, f, indent=1)
        f.write('\n')
    print('MANIFEST.json: %d checks, %d not claimed' % (len(checks), len(na)))


NA = {}

if __name__ == '__main__':
    main()
