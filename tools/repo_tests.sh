#!/bin/bash
# usage: repo_tests.sh [SRC_DIR] [PATCH ...]
# Copies SRC_DIR (default /repo, working tree) to a scratch dir, applies the patches, runs the pinned
# test command there and compares with BASELINE.json's stable_pass list. Scratch copy is removed.
SRC=${1:-/repo}; shift
S=$(mktemp -d /tmp/holpy-tests-XXXXXX)
rsync -a --exclude .git --exclude __pycache__ "$SRC"/ "$S"/
cd "$S" || exit 2
for p in "$@"; do patch -p1 -s < "$p" || { echo "PATCH FAILED $p"; rm -rf "$S"; exit 2; }; done
/venv/bin/python -m pytest -ra -q -p no:cacheprovider --timeout=900 --continue-on-collection-errors --junitxml="$S/junit.xml" >/dev/null 2>&1
/venv/bin/python - "$S/junit.xml" <<'PY'
import sys, json, xml.etree.ElementTree as ET
base = set(json.load(open('/root/.vp/BASELINE.json'))['stable_pass'])
passed = set()
for tc in ET.parse(sys.argv[1]).getroot().iter('testcase'):
    if not any(c.tag in ('failure', 'error', 'skipped') for c in tc):
        passed.add(tc.get('classname') + '::' + tc.get('name'))
missing = sorted(base - passed)
print('baseline passed: %d/%d' % (len(base & passed), len(base)))
for m in missing[:20]:
    print('  NOW FAILING:', m)
sys.exit(1 if missing else 0)
PY
rc=$?
cd /; rm -rf "$S"
exit $rc
