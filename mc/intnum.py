"""Oracle for C19: numeric value of an integral-calculator expression (integral.expr.Expr, read through its public fields)
with mpmath.  Raises Undecided whenever the value is not reliably computable (unknown function, complex value, divergent or
inaccurate quadrature, non-convergent limit or series)."""
from fractions import Fraction


class Undecided(Exception):
    pass


class Ev:
    def __init__(self, definitions=(), dps=30):
        import mpmath
        self.mp = mpmath.mp.clone()
        self.mp.dps = dps
        self.m = self.mp
        # name -> list of (arg names or patterns, body) from function definitions  f(x, y) = body
        self.defs = {}
        for lhs, rhs in definitions:
            if lhs.is_fun():
                self.defs.setdefault((lhs.func_name, len(lhs.args)), (lhs.args, rhs))
            elif lhs.is_var() or lhs.ty == 'SYMBOL' or hasattr(lhs, 'name'):
                self.defs.setdefault((getattr(lhs, 'name', None), 0), ((), rhs))
        self.max_quad_err = self.m.mpf(10) ** (-9)
        self.depth = 0
        self.work = 0

    # ------------------------------------------------------------------
    def val(self, e, env):
        m = self.m
        self.work += 1
        if self.work > 400000:
            raise Undecided('work budget')
        ty = e.ty
        if type(e).__name__ == 'Symbol':
            if e.name in env:
                return env[e.name]
            raise Undecided('pattern variable %s' % e.name)
        if e.is_var():
            if e.name in env:
                return env[e.name]
            if (e.name, 0) in self.defs:
                return self.val(self.defs[(e.name, 0)][1], env)
            raise Undecided('free variable %s' % e.name)
        if e.is_const():
            v = e.val
            if isinstance(v, Fraction):
                return m.mpf(v.numerator) / m.mpf(v.denominator)
            return m.mpf(v)
        if e.is_inf():
            return m.inf if str(e) == 'oo' else -m.inf
        if e.is_op():
            op = e.op
            if len(e.args) == 1:
                if op == '-':
                    return -self.val(e.args[0], env)
                raise Undecided('unary ' + op)
            a = self.val(e.args[0], env)
            b = self.val(e.args[1], env)
            if op == '+':
                r = a + b
            elif op == '-':
                r = a - b
            elif op == '*':
                r = a * b
            elif op == '/':
                if b == 0:
                    raise Undecided('division by zero')
                r = a / b
            elif op == '^':
                if a == 0 and b <= 0:
                    raise Undecided('0 ^ non-positive')
                if a < 0 and b != m.floor(b):
                    raise Undecided('negative base with fractional exponent')
                if a != 0 and abs(b) * abs(m.log(abs(a))) > 3000:
                    raise Undecided('power overflow')
                r = m.power(a, b)
            elif op in ('=', '!=', '<', '<=', '>', '>='):
                raise Undecided('relation as value')
            else:
                raise Undecided('operator ' + op)
            return self.real(r)
        if e.is_fun():
            return self.fun(e, env)
        if e.is_integral():
            return self.integral(e, env)
        if e.is_evalat():
            up = self.at(e.body, e.var, e.upper, env)
            lo = self.at(e.body, e.var, e.lower, env)
            return self.real(up - lo)
        if e.is_deriv():
            x0 = env.get(e.var)
            if x0 is None:
                raise Undecided('derivative at unknown point')
            f = lambda t: self.val(e.body, dict(env, **{e.var: t}))
            try:
                return self.real(m.diff(f, x0))
            except Undecided:
                raise
            except Exception as ex:
                raise Undecided('diff: %s' % type(ex).__name__)
        if e.is_limit():
            return self.limit(e.body, e.var, self.val(e.lim, env), e.drt, env)
        if e.is_summation():
            return self.summation(e, env)
        if e.is_indefinite_integral():
            # antiderivative normalised to vanish at the base point: differences of antiderivatives are compared by callers
            x0 = env.get(e.var)
            base = env.get('#base:' + e.var)
            if x0 is None or base is None:
                raise Undecided('indefinite integral')
            f = lambda t: self.val(e.body, dict(env, **{e.var: t}))
            return self.quad(f, [base, x0])
        if e.is_skolem_func():
            return m.mpf(0)
        raise Undecided('node ' + str(ty))

    def real(self, r):
        m = self.m
        if isinstance(r, m.mpc):
            if abs(r.imag) > m.mpf(10) ** (-20):
                raise Undecided('complex value')
            r = r.real
        if m.isnan(r):
            raise Undecided('nan')
        return r

    def fun(self, e, env):
        m = self.m
        name = e.func_name
        if name == 'pi' and not e.args:
            return m.pi
        if name == 'G' and not e.args:
            return m.catalan
        if (name, len(e.args)) in self.defs:
            params, body = self.defs[(name, len(e.args))]
            vals = [self.val(a, env) for a in e.args]
            env2 = dict(env)
            for p, v in zip(params, vals):
                pn = getattr(p, 'name', None)
                if pn is None:
                    raise Undecided('definition pattern')
                env2[pn] = v
            self.depth += 1
            if self.depth > 6:
                self.depth -= 1
                raise Undecided('definition depth')
            try:
                return self.val(body, env2)
            finally:
                self.depth -= 1
        a = [self.val(x, env) for x in e.args]
        try:
            if name == 'sin':
                return m.sin(a[0])
            if name == 'cos':
                return m.cos(a[0])
            if name == 'tan':
                return m.tan(a[0])
            if name == 'cot':
                return m.cot(a[0])
            if name == 'sec':
                return m.sec(a[0])
            if name == 'csc':
                return m.csc(a[0])
            if name in ('sinh', 'cosh') and abs(a[0]) > 3000:
                raise Undecided('overflow')
            if name == 'sinh':
                return m.sinh(a[0])
            if name == 'cosh':
                return m.cosh(a[0])
            if name == 'tanh':
                return m.tanh(a[0])
            if name == 'asin':
                if abs(a[0]) > 1:
                    raise Undecided('asin domain')
                return m.asin(a[0])
            if name == 'acos':
                if abs(a[0]) > 1:
                    raise Undecided('acos domain')
                return m.acos(a[0])
            if name == 'atan':
                return m.atan(a[0])
            if name == 'acot':
                return m.acot(a[0])
            if name == 'log':
                if a[0] <= 0:
                    raise Undecided('log domain')
                return m.log(a[0])
            if name == 'exp':
                if a[0] > 3000:
                    raise Undecided('exp overflow')
                return m.exp(a[0])
            if name == 'sqrt':
                if a[0] < 0:
                    raise Undecided('sqrt domain')
                return m.sqrt(a[0])
            if name == 'abs':
                return abs(a[0])
            if name == 'factorial':
                return self.real(m.factorial(a[0]))
            if name == 'binom':
                return self.real(m.binomial(a[0], a[1]))
            if name == 'Gamma':
                return self.real(m.gamma(a[0]))
        except Undecided:
            raise
        except Exception as ex:
            raise Undecided('%s: %s' % (name, type(ex).__name__))
        raise Undecided('function ' + name)

    def at(self, body, var, point, env):
        m = self.m
        p = self.val(point, env)
        if m.isinf(p):
            return self.limit(body, var, p, None, env)
        try:
            return self.val(body, dict(env, **{var: p}))
        except Undecided:
            # removable singularity at the end point: one-sided limit
            return self.limit(body, var, p, None, env)

    def quad(self, f, pts):
        m = self.m
        try:
            v, err = m.quad(f, pts, error=True, maxdegree=8)
        except Undecided:
            raise
        except Exception as ex:
            raise Undecided('quad: %s' % type(ex).__name__)
        v = self.real(v)
        if m.isinf(v) or err > self.max_quad_err * max(1, abs(v)):
            raise Undecided('quadrature not accurate')
        if abs(v) > m.mpf(10) ** 9:
            # a divergent integral shows up as a huge number with a deceptively small relative error estimate
            raise Undecided('quadrature value too large to trust')
        return v

    def integral(self, e, env):
        m = self.m
        lo, hi = self.val(e.lower, env), self.val(e.upper, env)
        if lo == hi:
            return m.mpf(0)

        def f(t):
            try:
                return self.val(e.body, dict(env, **{e.var: t}))
            except Undecided as u:
                if 'division by zero' in str(u) or 'domain' in str(u) or '0 ^' in str(u):
                    raise ZeroDivisionError
                raise
        pts = [lo, hi]
        # a midpoint helps with end-point singularities; interior singularities make the estimate large -> Undecided
        if not m.isinf(lo) and not m.isinf(hi):
            pts = [lo, (lo + hi) / 2, hi]
        elif m.isinf(lo) and m.isinf(hi):
            pts = [lo, 0, hi]
        elif m.isinf(hi):
            pts = [lo, lo + 1, hi]
        else:
            pts = [lo, hi - 1, hi]
        try:
            return self.quad(f, pts)
        except ZeroDivisionError:
            raise Undecided('integrand singular at a node')

    def limit(self, body, var, p, drt, env):
        m = self.m
        f = lambda t: self.val(body, dict(env, **{var: t}))
        vals = []
        try:
            if m.isinf(p):
                sgn = 1 if p > 0 else -1
                xs = [sgn * m.mpf(10) ** k for k in (3, 5, 7, 9)]
                ys = [f(x) for x in xs]
                if abs(ys[-1] - ys[-2]) > m.mpf(10) ** (-7) * max(1, abs(ys[-1])) or abs(ys[-2] - ys[-3]) < abs(ys[-1] - ys[-2]) / 2 and abs(ys[-1] - ys[-2]) > m.mpf(10) ** (-12):
                    raise Undecided('limit at infinity does not settle')
                return self.real(ys[-1])
            dirs = [1, -1] if drt is None else ([1] if drt == '+' else [-1])
            for d in dirs:
                ys = [f(p + d * m.mpf(10) ** (-k)) for k in (4, 6, 8, 10)]
                if abs(ys[-1] - ys[-2]) > m.mpf(10) ** (-6) * max(1, abs(ys[-1])):
                    raise Undecided('limit does not settle')
                vals.append(ys[-1])
        except Undecided:
            if drt is None and not m.isinf(p):
                # maybe only one side lies in the domain
                ok = []
                for d in (1, -1):
                    try:
                        ys = [f(p + d * m.mpf(10) ** (-k)) for k in (4, 6, 8, 10)]
                        if abs(ys[-1] - ys[-2]) <= m.mpf(10) ** (-6) * max(1, abs(ys[-1])):
                            ok.append(ys[-1])
                    except Undecided:
                        pass
                if len(ok) == 1:
                    return self.real(ok[0])
            raise
        except Exception as ex:
            raise Undecided('limit: %s' % type(ex).__name__)
        if len(vals) == 2 and abs(vals[0] - vals[1]) > m.mpf(10) ** (-5) * max(1, abs(vals[0])):
            raise Undecided('one-sided limits differ')
        return self.real(vals[0])

    def summation(self, e, env):
        m = self.m
        lo, hi = self.val(e.lower, env), self.val(e.upper, env)
        f = lambda k: self.val(e.body, dict(env, **{e.index_var: m.mpf(k)}))
        if lo != m.floor(lo):
            raise Undecided('summation bound')
        try:
            if m.isinf(hi):
                v = m.nsum(f, [int(lo), m.inf])
                # nsum gives no error estimate: compare with a long partial sum
                part = sum(f(k) for k in range(int(lo), int(lo) + 400))
                tail = abs(v - part)
                if tail > m.mpf(10) ** (-2) * max(1, abs(v)):
                    raise Undecided('series converges too slowly to trust')
                return self.real(v)
            if hi != m.floor(hi) or hi - lo > 2000:
                raise Undecided('summation bound')
            return self.real(sum((f(k) for k in range(int(lo), int(hi) + 1)), m.mpf(0)))
        except Undecided:
            raise
        except Exception as ex:
            raise Undecided('sum: %s' % type(ex).__name__)


def holds(ev, cond, env):
    """truth of a condition expression (relation) under env; None when not evaluable"""
    try:
        if not cond.is_op() or len(cond.args) != 2:
            if cond.is_fun() and cond.func_name == 'isInt':
                v = ev.val(cond.args[0], env)
                return v == ev.m.floor(v)
            return None
        a, b = ev.val(cond.args[0], env), ev.val(cond.args[1], env)
    except Undecided:
        return None
    op = cond.op
    if op == '>':
        return a > b
    if op == '>=':
        return a >= b
    if op == '<':
        return a < b
    if op == '<=':
        return a <= b
    if op == '=':
        return abs(a - b) < ev.m.mpf(10) ** (-12)
    if op == '!=':
        return abs(a - b) > ev.m.mpf(10) ** (-12)
    return None


def selftest():
    import sys
    from integral import parser
    ev = Ev()
    n = 0
    for s, want in [('INT x:[0,1]. x ^ 2', Fraction(1, 3)), ('INT x:[0,oo]. exp(-x)', 1), ('D x. x ^ 3', 12), ('[x ^ 2]_x=1,3', 8),
                    ('LIM {x -> 0}. sin(x) / x', 1), ('SUM(k, 0, 3, k)', 6), ('INT x:[1,2]. 1 / x - log(2)', None)]:
        e = parser.parse_expr(s)
        if want is None:
            continue
        v = ev.val(e, {'x': ev.m.mpf(2)})
        assert abs(v - ev.m.mpf(Fraction(want).numerator) / Fraction(want).denominator) < 1e-9, (s, v)
        n += 1
    try:
        ev.val(parser.parse_expr('INT x:[0,8]. 1 / (x - 2)'), {})
        raise AssertionError('divergent integral evaluated')
    except Undecided:
        n += 1
    return n
