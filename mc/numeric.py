"""Oracle N: exact evaluation of ground (or valuated) HOL arithmetic over reference terms.

nat -> python int (>= 0, truncated subtraction), int -> python int, real -> fractions.Fraction,
bool -> bool, functions -> python callables.  HOL conventions: x / 0 = 0, real_inverse 0 = 0,
x DIV 0 = 0, x MOD 0 = x, 0 ^ 0 = 1.  Raises Unsupported for anything outside the fragment
(irrational functions are handled by the callers that need them, with interval arithmetic).
"""
from fractions import Fraction

from mc import ref
from mc.ref import BOOL

NAT = ('tc', 'nat', ())
INT = ('tc', 'int', ())
REAL = ('tc', 'real', ())


class Unsupported(Exception):
    pass


def result_type(T):
    while ref.is_fun(T):
        T = T[2][1]
    return T


def conv_num(x, T):
    if T == REAL:
        return Fraction(x)
    return x


def ev(t, env=None, bs=()):
    """evaluate reference term t; env maps free atoms (v/sv tuples) to python values"""
    env = env or {}
    k = t[0]
    if k == 'b':
        return bs[t[1]]
    if k in ('v', 'sv'):
        if t in env:
            return env[t]
        raise Unsupported('free variable %s' % ref.show(t))
    if k == 'abs':
        return lambda x, t=t, env=env, bs=bs: ev(t[3], env, (x,) + tuple(bs))
    if k == 'c':
        return const(t[1], t[2])
    # application: strip spine
    args = []
    h = t
    while h[0] == 'app':
        args.append(h[2])
        h = h[1]
    args.reverse()
    if h[0] == 'c':
        nm, T = h[1], h[2]
        # lazy connectives
        if nm == 'IF' and len(args) >= 3:
            r = ev(args[1], env, bs) if ev(args[0], env, bs) else ev(args[2], env, bs)
            return apply_all(r, [ev(a, env, bs) for a in args[3:]])
        if nm == 'conj' and len(args) == 2:
            return bool(ev(args[0], env, bs)) and bool(ev(args[1], env, bs))
        if nm == 'disj' and len(args) == 2:
            return bool(ev(args[0], env, bs)) or bool(ev(args[1], env, bs))
        if nm == 'implies' and len(args) == 2:
            return (not ev(args[0], env, bs)) or bool(ev(args[1], env, bs))
    f = ev(h, env, bs)
    return apply_all(f, [ev(a, env, bs) for a in args])


def apply_all(f, vals):
    for x in vals:
        if not callable(f):
            raise Unsupported('application of a non-function value')
        f = f(x)
    return f


def curry(n, fn):
    if n == 0:
        return fn()
    if n == 1:
        return fn
    return lambda x: curry(n - 1, lambda *rest: fn(x, *rest))


def const(nm, T):
    R = result_type(T)
    A0 = T[2][0] if ref.is_fun(T) else None
    if nm == 'zero':
        return conv_num(0, T)
    if nm == 'one':
        return conv_num(1, T)
    if nm == 'true':
        return True
    if nm == 'false':
        return False
    if nm == 'bit0':
        return lambda n: 2 * n
    if nm == 'bit1':
        return lambda n: 2 * n + 1
    if nm == 'Suc':
        return lambda n: n + 1
    if nm == 'of_nat':
        return lambda n: conv_num(n, R)
    if nm == 'of_int':
        return lambda n: conv_num(n, R)
    if nm == 'plus':
        return curry(2, lambda a, b: a + b)
    if nm == 'times':
        return curry(2, lambda a, b: a * b)
    if nm == 'minus':
        if R == NAT:
            return curry(2, lambda a, b: max(0, a - b))
        return curry(2, lambda a, b: a - b)
    if nm == 'uminus':
        if R == NAT:
            raise Unsupported('uminus on nat')
        return lambda a: -a
    if nm == 'real_divide':
        return curry(2, lambda a, b: Fraction(0) if b == 0 else Fraction(a) / Fraction(b))
    if nm == 'real_inverse':
        return lambda a: Fraction(0) if a == 0 else 1 / Fraction(a)
    if nm == 'nat_divide':
        return curry(2, lambda a, b: 0 if b == 0 else a // b)
    if nm == 'nat_modulus':
        return curry(2, lambda a, b: a if b == 0 else a % b)
    if nm == 'power':
        expT = T[2][1][2][0]
        if expT != NAT:
            raise Unsupported('power with non-nat exponent')
        return curry(2, lambda a, n: conv_num(1, R) if n == 0 else a ** n)
    if nm == 'abs':
        return lambda a: -a if a < 0 else a
    if nm == 'max':
        return curry(2, lambda a, b: a if a >= b else b)
    if nm == 'min':
        return curry(2, lambda a, b: a if a <= b else b)
    if nm == 'less':
        return curry(2, lambda a, b: a < b)
    if nm == 'less_eq':
        return curry(2, lambda a, b: a <= b)
    if nm == 'greater':
        return curry(2, lambda a, b: a > b)
    if nm == 'greater_eq':
        return curry(2, lambda a, b: a >= b)
    if nm == 'equals':
        if ref.is_fun(A0):
            raise Unsupported('equality of functions')
        return curry(2, lambda a, b: a == b)
    if nm == 'neg':
        return lambda a: not a
    if nm == 'conj':
        return curry(2, lambda a, b: bool(a) and bool(b))
    if nm == 'disj':
        return curry(2, lambda a, b: bool(a) or bool(b))
    if nm == 'implies':
        return curry(2, lambda a, b: (not a) or bool(b))
    if nm == 'IF':
        return curry(3, lambda c, a, b: a if c else b)
    if nm == 'fun_upd':
        return curry(3, lambda f, a, b: (lambda x, f=f, a=a, b=b: b if x == a else f(x)))
    raise Unsupported('constant %s' % nm)


def selftest():
    from mc.engine import import_holpy
    import_holpy()
    from logic import basic
    basic.load_theory('real')
    from kernel.term import Nat, Int, Real
    from kernel import term as hterm
    n = 0
    checks = [
        (Nat(3) - Nat(5), 0), (Nat(5) - Nat(3), 2), (Int(3) - Int(5), -2), (Real(1) / Real(0), 0), (Real(1) / Real(3), Fraction(1, 3)),
        (Nat(2) ** Nat(10), 1024), (Nat(0) ** Nat(0), 1), (Real(2) * Real(3) + Real(1), 7), (-Int(4), -4),
    ]
    for h, expect in checks:
        got = ev(ref.conv_term(h))
        assert got == expect, (str(h), got, expect)
        n += 1
    assert ev(ref.conv_term(hterm.less(hterm.NatType)(Nat(2), Nat(3)))) is True
    return '%d evaluations' % (n + 1)
