"""Independent quantifier-free encoding of reference terms (mc.ref) into z3, used as a reference oracle where finite-model
enumeration is too large: uninterpreted sorts for type atoms, uninterpreted functions for free function atoms (first-order
use only), nat as non-negative Int with truncated subtraction, real division with x / 0 = 0.  A 'sat' answer is used only after
the model has been evaluated on the formula itself."""
from fractions import Fraction

from mc import ref, numeric
from mc.ref import BOOL
from mc.numeric import NAT, INT, REAL


class Unsupported(Exception):
    pass


class Enc:
    def __init__(self):
        import z3
        self.z3 = z3
        self.atoms = {}
        self.sorts = {}
        self.side = []

    def sort(self, T):
        z3 = self.z3
        if T == BOOL:
            return z3.BoolSort()
        if T in (NAT, INT):
            return z3.IntSort()
        if T == REAL:
            return z3.RealSort()
        if T[0] in ('tv', 'stv') or (T[0] == 'tc' and not T[2]):
            key = ref.show_type(T)
            if key not in self.sorts:
                self.sorts[key] = z3.DeclareSort('S_' + key.replace("'", '_').replace('?', 'q'))
            return self.sorts[key]
        raise Unsupported('sort %s' % ref.show_type(T))

    def atom(self, a, nargs):
        z3 = self.z3
        key = (a, nargs)
        if key in self.atoms:
            return self.atoms[key]
        T = a[2]
        argTs = []
        for _ in range(nargs):
            if not ref.is_fun(T):
                raise Unsupported('over-applied atom')
            argTs.append(T[2][0])
            T = T[2][1]
        if ref.is_fun(T):
            raise Unsupported('partially applied atom')
        name = '%s_%s_%d' % (a[0], a[1], len(self.atoms))
        if nargs == 0:
            r = z3.Const(name, self.sort(T))
            if T == NAT:
                self.side.append(r >= 0)
        else:
            r = z3.Function(name, *([self.sort(x) for x in argTs] + [self.sort(T)]))
            # results of nat-valued functions are not constrained: more models, still sound as a *reference refuter* only if
            # the caller validates the model; to stay safe such atoms are refused
            if T == NAT or NAT in argTs:
                raise Unsupported('nat-valued function atom')
        self.atoms[key] = r
        return r

    def enc(self, t):
        z3 = self.z3
        k = t[0]
        if k in ('abs', 'b'):
            raise Unsupported('binder')
        h = t
        args = []
        while h[0] == 'app':
            args.append(h[2])
            h = h[1]
        args.reverse()
        if h[0] in ('v', 'sv'):
            f = self.atom(h, len(args))
            return f(*[self.enc(a) for a in args]) if args else f
        if h[0] != 'c':
            raise Unsupported('head')
        nm, T = h[1], h[2]
        if nm in ('all', 'exists', 'exists1', 'Some', 'THE'):
            raise Unsupported('quantifier')
        if nm == 'true' and not args:
            return z3.BoolVal(True)
        if nm == 'false' and not args:
            return z3.BoolVal(False)
        if nm in ('zero', 'one', 'of_nat', 'of_int', 'bit0', 'bit1') or (nm in ('uminus', 'real_divide') and all_numeral(args)):
            try:
                val = numeric.ev(t)
            except Exception:
                val = None
            if val is not None and not callable(val):
                R = numeric.result_type(T)
                if R == REAL:
                    fr = Fraction(val)
                    return z3.RealVal('%d/%d' % (fr.numerator, fr.denominator))
                return z3.IntVal(int(val))
            if nm == 'of_nat' and len(args) == 1 or nm == 'of_int' and len(args) == 1:
                inner = self.enc(args[0])
                return z3.ToReal(inner) if numeric.result_type(T) == REAL else inner
            raise Unsupported('numeral')
        a = [self.enc(x) for x in args]
        n = len(a)
        if nm == 'neg' and n == 1:
            return z3.Not(a[0])
        if nm == 'conj' and n == 2:
            return z3.And(a[0], a[1])
        if nm == 'disj' and n == 2:
            return z3.Or(a[0], a[1])
        if nm == 'implies' and n == 2:
            return z3.Implies(a[0], a[1])
        if nm == 'xor' and n == 2:
            return z3.Xor(a[0], a[1])
        if nm == 'equals' and n == 2:
            if ref.is_fun(T[2][0]):
                raise Unsupported('function equality')
            return a[0] == a[1]
        if nm == 'IF' and n == 3:
            return z3.If(a[0], a[1], a[2])
        R = numeric.result_type(T)
        A0 = T[2][0] if ref.is_fun(T) else None
        if A0 not in (NAT, INT, REAL):
            raise Unsupported('constant %s' % nm)
        if nm == 'plus' and n == 2:
            return a[0] + a[1]
        if nm == 'times' and n == 2:
            return a[0] * a[1]
        if nm == 'minus' and n == 2:
            if A0 == NAT:
                return z3.If(a[0] >= a[1], a[0] - a[1], 0)
            return a[0] - a[1]
        if nm == 'uminus' and n == 1 and A0 != NAT:
            return -a[0]
        if nm == 'real_divide' and n == 2:
            return z3.If(a[1] == 0, z3.RealVal(0), a[0] / a[1])
        if nm == 'less' and n == 2:
            return a[0] < a[1]
        if nm == 'less_eq' and n == 2:
            return a[0] <= a[1]
        if nm == 'greater' and n == 2:
            return a[0] > a[1]
        if nm == 'greater_eq' and n == 2:
            return a[0] >= a[1]
        if nm == 'abs' and n == 1:
            return z3.If(a[0] >= 0, a[0], -a[0])
        if nm == 'max' and n == 2:
            return z3.If(a[0] >= a[1], a[0], a[1])
        if nm == 'min' and n == 2:
            return z3.If(a[0] <= a[1], a[0], a[1])
        raise Unsupported('constant %s/%d' % (nm, n))


def all_numeral(args):
    for a in args:
        cs = set()
        stack = [a]
        while stack:
            x = stack.pop()
            if x[0] == 'app':
                stack += [x[1], x[2]]
            elif x[0] == 'c':
                cs.add(x[1])
            else:
                return False
        if not cs <= {'zero', 'one', 'of_nat', 'of_int', 'bit0', 'bit1', 'uminus', 'real_divide'}:
            return False
    return True


def refute(hyps, concl, timeout_ms=2000):
    """('sat', model text) when hyps and ~concl have a common model that z3 found and that evaluates as such;
    ('unsat', None); ('unknown', why)"""
    import z3
    e = Enc()
    try:
        fs = [e.enc(h) for h in hyps]
        g = e.enc(concl)
    except Unsupported as ex:
        return ('unknown', 'not encodable: %s' % ex)
    except Exception as ex:
        return ('unknown', 'encoding failed: %s' % type(ex).__name__)
    s = z3.Solver()
    s.set('timeout', timeout_ms)
    for c in e.side:
        s.add(c)
    for f in fs:
        s.add(f)
    s.add(z3.Not(g))
    r = s.check()
    if r == z3.unsat:
        return ('unsat', None)
    if r != z3.sat:
        return ('unknown', 'z3 says %s' % r)
    m = s.model()
    try:
        ok = all(z3.is_true(m.eval(f, model_completion=True)) for f in fs + e.side) and z3.is_false(m.eval(g, model_completion=True))
    except Exception:
        ok = False
    if not ok:
        return ('unknown', 'model does not evaluate')
    return ('sat', str(m)[:400])


def selftest():
    B2 = ref.funs(BOOL, BOOL, BOOL)
    a, b = ('v', 'a', BOOL), ('v', 'b', BOOL)
    conj = lambda x, y: ('app', ('app', ('c', 'conj', B2), x), y)
    assert refute([conj(a, b)], a)[0] == 'unsat'
    assert refute([a], conj(a, b))[0] == 'sat'
    U = ('tv', 'u')
    f = ('v', 'f', ref.fun(U, U))
    x, y = ('v', 'x', U), ('v', 'y', U)
    eq = lambda s, t: ('app', ('app', ('c', 'equals', ref.funs(U, U, BOOL)), s), t)
    assert refute([eq(x, y)], eq(('app', f, x), ('app', f, y)))[0] == 'unsat'
    assert refute([eq(('app', f, x), ('app', f, y))], eq(x, y))[0] == 'sat'
    return 4
