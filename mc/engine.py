"""Engine shared by all property checks.

E1: sharded exhaustive enumeration.  A property module provides

    ID, LEVEL, RULE, ASSUMPTIONS
    setup(tier)                 per-worker initialisation (load theories ...)
    cases(tier)                 deterministic generator of JSON-able case descriptions
    run(case) -> Outcome        executes the real code on one case and judges it

E2 modules (explicit-state search) instead provide

    explore(tier, shard, nshards, agg)     fills the aggregate itself (see Agg)

The driver (`main`) re-executes itself as N worker processes with a fixed
PYTHONHASHSEED, merges their aggregates, matches violations against
known_findings.json, writes evidence/<id>.json and replay files under out/.
"""
import hashlib
import importlib
import io
import json
import os
import re
import signal
import subprocess
import sys
import time
import traceback

VERIF = os.path.dirname(os.path.dirname(os.path.abspath(__file__)))
REPO = os.environ.get('VERIF_REPO', '/repo')
PY = '/venv/bin/python'


# --------------------------------------------------------------------------------------
# watchdog

class CaseTimeout(BaseException):
    """Raised by the wall-clock watchdog.  BaseException so that `except Exception` in the
    code under test cannot swallow it."""


class BudgetExceeded(BaseException):
    """Raised by the deterministic line-event budget."""


def _alarm(signum, frame):
    raise CaseTimeout()


def call_with_budget(fn, wall_s, line_budget):
    """Run fn() under a wall-clock watchdog; if it expires, re-run under a deterministic
    budget of trace line events.  Returns ('ok', value) | ('exc', exception) | ('hang', None).
    Only exhausting the deterministic budget is reported as a hang."""
    signal.signal(signal.SIGALRM, _alarm)
    signal.setitimer(signal.ITIMER_REAL, wall_s)
    try:
        try:
            return ('ok', fn())
        finally:
            signal.setitimer(signal.ITIMER_REAL, 0)
    except CaseTimeout:
        pass
    except RecursionError as e:
        return ('exc', e)
    except Exception as e:
        return ('exc', e)
    # deterministic re-run
    count = [0]

    def tracer(frame, event, arg):
        count[0] += 1
        if count[0] > line_budget:
            raise BudgetExceeded()
        return tracer

    old = sys.gettrace()
    sys.settrace(tracer)
    try:
        try:
            return ('ok', fn())
        finally:
            sys.settrace(old)
    except BudgetExceeded:
        return ('hang', None)
    except RecursionError as e:
        return ('exc', e)
    except Exception as e:
        return ('exc', e)


# --------------------------------------------------------------------------------------
# outcomes / aggregates

class Outcome:
    __slots__ = ('cls', 'nontrivial', 'violation', 'obs')

    def __init__(self, cls, nontrivial=False, violation=None, obs=None):
        self.cls = cls                  # outcome class for the histogram
        self.nontrivial = nontrivial    # counted in distinct_nontrivial
        self.violation = violation      # None | dict(signature=, what=, ...)
        self.obs = obs                  # canonical observation string (determinism check)


class Agg:
    """Per-worker aggregate, JSON-able through .dump()."""

    def __init__(self):
        self.evaluations = 0
        self.nontrivial = 0
        self.hist = {}
        self.samples = {}       # class -> list of cases (first 2)
        self.violations = []    # list of dict(case, violation)
        self.nviol = 0
        self.states = 0
        self.transitions = 0
        self.extra = {}
        self.digest = hashlib.sha256()
        self.head_obs = []      # observations of the first cases (determinism check)

    def add(self, case, out, keep_head=0):
        self.evaluations += 1
        self.hist[out.cls] = self.hist.get(out.cls, 0) + 1
        if out.nontrivial:
            self.nontrivial += 1
        s = self.samples.setdefault(out.cls, [])
        if len(s) < 2:
            s.append(case)
        if out.violation is not None:
            self.nviol += 1
            if len(self.violations) < 400:
                self.violations.append({'case': case, 'violation': out.violation})
        if out.obs is not None:
            self.digest.update(out.obs.encode('utf8', 'replace'))
            self.digest.update(b'\0')
        if keep_head and len(self.head_obs) < keep_head:
            self.head_obs.append([out.cls, out.obs])

    def count(self, key, n=1):
        self.extra[key] = self.extra.get(key, 0) + n

    def dump(self):
        return {'evaluations': self.evaluations, 'nontrivial': self.nontrivial, 'hist': self.hist,
                'samples': self.samples, 'violations': self.violations, 'nviol': self.nviol,
                'states': self.states, 'transitions': self.transitions, 'extra': self.extra,
                'digest': self.digest.hexdigest(), 'head_obs': self.head_obs}


def merge(dumps):
    m = {'evaluations': 0, 'nontrivial': 0, 'hist': {}, 'samples': {}, 'violations': [], 'nviol': 0,
         'states': 0, 'transitions': 0, 'extra': {}}
    for d in dumps:
        for k in ('evaluations', 'nontrivial', 'nviol', 'states', 'transitions'):
            m[k] += d[k]
        for k, v in d['hist'].items():
            m['hist'][k] = m['hist'].get(k, 0) + v
        for k, v in d['extra'].items():
            if isinstance(v, (int, float)):
                m['extra'][k] = m['extra'].get(k, 0) + v
            elif isinstance(v, list):
                m['extra'].setdefault(k, [])
                for x in v:
                    if x not in m['extra'][k] and len(m['extra'][k]) < 50:
                        m['extra'][k].append(x)
            elif isinstance(v, dict):
                m['extra'].setdefault(k, {})
                if isinstance(m['extra'][k], dict):
                    m['extra'][k].update(v)
            else:
                m['extra'].setdefault(k, v)
        for k, v in d['samples'].items():
            s = m['samples'].setdefault(k, [])
            for c in v:
                if len(s) < 2:
                    s.append(c)
        m['violations'].extend(d['violations'])
    return m


# --------------------------------------------------------------------------------------
# importing holpy from the working tree

def import_holpy():
    """Put /repo on sys.path and work around the site-packages `smt` distribution which
    shadows /repo/smt (a namespace package)."""
    if REPO not in sys.path:
        sys.path.insert(0, REPO)
    import types
    if 'smt' not in sys.modules or getattr(sys.modules['smt'], '__path__', None) != [REPO + '/smt']:
        m = types.ModuleType('smt')
        m.__path__ = [REPO + '/smt']
        sys.modules['smt'] = m


class quiet:
    """Redirect stdout of the code under test."""

    def __enter__(self):
        self.old = sys.stdout
        sys.stdout = io.StringIO()

    def __exit__(self, *a):
        sys.stdout = self.old


# --------------------------------------------------------------------------------------
# worker

def tier_param(tier, q, t):
    return q if tier == 'quick' else t


def worker_main(argv):
    prop, tier, shard, nshards, outfile = argv[0], argv[1], int(argv[2]), int(argv[3]), argv[4]
    head = int(argv[5]) if len(argv) > 5 else 0
    import_holpy()
    sys.setrecursionlimit(3000)
    mod = importlib.import_module('mc.props.' + prop.lower())
    agg = Agg()
    real_stdout = sys.stdout
    sys.stdout = io.StringIO()
    try:
        if hasattr(mod, 'setup'):
            mod.setup(tier)
        if hasattr(mod, 'explore'):
            mod.explore(tier, shard, nshards, agg)
        else:
            wall = getattr(mod, 'WALL_S', tier_param(tier, 3.0, 10.0))
            budget = getattr(mod, 'LINE_BUDGET', 3000000)
            limit = head if head else None
            n = 0
            nhang = 0
            for i, case in enumerate(mod.cases(tier)):
                if i % nshards != shard:
                    continue
                n += 1
                if limit is not None and n > limit:
                    break
                st, val = call_with_budget(lambda: mod.run(case), wall, budget)
                if st == 'ok':
                    out = val
                elif st == 'hang':
                    out = mod.on_hang(case) if hasattr(mod, 'on_hang') else Outcome('HANG', obs='HANG')
                    nhang += 1
                    if nhang >= getattr(mod, 'MAX_HANGS', 6):
                        # every hang costs seconds; enough of them have been recorded
                        agg.add(case, out, keep_head=head)
                        agg.extra['cap_hit'] = 'worker stopped after %d hangs' % nhang
                        break
                else:
                    # an exception escaping mod.run is a bug of the harness, not of holpy
                    tb = ''.join(traceback.format_exception(type(val), val, val.__traceback__))
                    raise RuntimeError('harness error on case %r:\n%s' % (case, tb))
                agg.add(case, out, keep_head=head)
                if sys.stdout.tell() > 1 << 20:
                    sys.stdout = io.StringIO()
    finally:
        sys.stdout = real_stdout
    # additive counters a property module keeps for its evidence (module attribute COUNTS: name -> int)
    for k, v in sorted(getattr(mod, 'COUNTS', {}).items()):
        agg.count(k, v)
    with open(outfile, 'w') as f:
        json.dump(agg.dump(), f)


# --------------------------------------------------------------------------------------
# known findings

def load_known():
    p = os.path.join(VERIF, 'known_findings.json')
    if not os.path.exists(p):
        return []
    with open(p) as f:
        return json.load(f)


def match_known(known, prop, violation):
    """An open entry matches a violation iff the signature is listed exactly."""
    sig = violation.get('signature')
    for k in known:
        if k.get('property') != prop or k.get('status') != 'open':
            continue
        if sig == k.get('signature') or sig in k.get('signatures', ()):
            return k
        # a narrow classifier over the case (used only where one root cause makes an open-ended family of inputs fail)
        rx = k.get('signature_regex')
        if rx and sig is not None and re.search(rx, sig):
            return k
    return None


# --------------------------------------------------------------------------------------
# driver

def validate_evidence(ev):
    try:
        import jsonschema
    except ImportError:
        return
    with open('/root/.vp/EVIDENCE.schema.json') if os.path.exists('/root/.vp/EVIDENCE.schema.json') \
            else open(os.path.join(VERIF, 'schemas', 'EVIDENCE.schema.json')) as f:
        schema = json.load(f)
    jsonschema.validate(ev, schema)


def run_workers(prop, tier, nshards, hashseed, head=0, shards=None):
    outdir = os.path.join(VERIF, 'out', 'tmp')
    os.makedirs(outdir, exist_ok=True)
    env = dict(os.environ)
    env['PYTHONHASHSEED'] = str(hashseed)
    env['PYTHONPATH'] = VERIF + os.pathsep + REPO
    env['PYTHONDONTWRITEBYTECODE'] = '1'
    for k in ('OMP_NUM_THREADS', 'OPENBLAS_NUM_THREADS', 'MKL_NUM_THREADS', 'NUMEXPR_NUM_THREADS'):
        env[k] = '1'      # 16 single-threaded workers; numeric libraries must not spawn their own pools
    procs = []
    for sh in (shards if shards is not None else range(nshards)):
        of = os.path.join(outdir, '%s-%s-%d-%d-%d.json' % (prop, tier, sh, os.getpid(), head))
        if os.path.exists(of):
            os.remove(of)
        cmd = [PY, '-W', 'ignore', '-m', 'mc.engine', '--worker', prop, tier, str(sh), str(nshards), of, str(head)]
        procs.append((sh, of, subprocess.Popen(cmd, env=env, cwd=VERIF, stdout=subprocess.PIPE,
                                               stderr=subprocess.PIPE)))
    dumps = []
    for sh, of, p in procs:
        so, se = p.communicate()
        if p.returncode != 0 or not os.path.exists(of):
            sys.stderr.write(se.decode('utf8', 'replace')[-6000:])
            raise SystemExit(2)
        with open(of) as f:
            dumps.append(json.load(f))
        os.remove(of)
    return dumps


def main(argv):
    import argparse
    ap = argparse.ArgumentParser()
    ap.add_argument('prop')
    ap.add_argument('--tier', default=os.environ.get('VERIF_TIER', 'quick'))
    ap.add_argument('--replay')
    ap.add_argument('--jobs', type=int, default=int(os.environ.get('VERIF_JOBS', '16')))
    args = ap.parse_args(argv)
    prop = args.prop.upper()
    tier = args.tier if args.tier in ('quick', 'thorough') else 'quick'
    seed = int(os.environ.get('VERIF_SEED', '0') or 0)
    hashseed = seed % 4294967295

    if args.replay:
        env = dict(os.environ)
        env['PYTHONHASHSEED'] = str(hashseed)
        env['PYTHONPATH'] = VERIF + os.pathsep + REPO
        return subprocess.call([PY, '-W', 'ignore', '-m', 'mc.engine', '--replay', prop, args.replay], env=env, cwd=VERIF)

    t0 = time.time()
    sys.path.insert(0, VERIF)
    mod = importlib.import_module('mc.props.' + prop.lower())
    nshards = getattr(mod, 'NSHARDS', args.jobs)

    # determinism self-check: the head of shard 0 is executed twice in separate processes
    head = getattr(mod, 'DETERMINISM_HEAD', 300)
    det = None
    if head and not hasattr(mod, 'explore'):
        a = run_workers(prop, tier, nshards, hashseed, head=head, shards=[0])[0]
        b = run_workers(prop, tier, nshards, hashseed, head=head, shards=[0])[0]
        if a['head_obs'] != b['head_obs']:
            for x, y in zip(a['head_obs'], b['head_obs']):
                if x != y:
                    print('DETERMINISM-FAILURE %s: %r vs %r' % (prop, x, y))
                    break
            return 2
        det = len(a['head_obs'])

    dumps = run_workers(prop, tier, nshards, hashseed)
    m = merge(dumps)
    known = load_known()
    os.makedirs(os.path.join(VERIF, 'out'), exist_ok=True)
    import glob
    for old_file in glob.glob(os.path.join(VERIF, 'out', prop + '-*.json')):
        os.remove(old_file)       # replay files of earlier runs

    new_viol = []
    known_hits = {}
    for v in m['violations']:
        k = match_known(known, prop, v['violation'])
        if k is not None:
            known_hits.setdefault(k['id'], [k, 0])[1] += 1
        else:
            new_viol.append(v)
    # violations beyond the per-worker cap are unknown by definition
    overflow = m['nviol'] - len(m['violations'])

    for kid, (k, n) in sorted(known_hits.items()):
        print('KNOWN-FINDING: property=%s %s [%s; %d case(s) in this run]' % (prop, k['what'], kid, n))

    seen_sig = set()
    nprint = 0
    for i, v in enumerate(new_viol):
        sig = v['violation'].get('signature')
        if sig in seen_sig:
            continue
        seen_sig.add(sig)
        path = os.path.join(VERIF, 'out', '%s-%d.json' % (prop, len(seen_sig)))
        with open(path, 'w') as f:
            json.dump({'property': prop, 'tier': tier, 'hashseed': hashseed, 'case': v['case'],
                       'violation': v['violation']}, f, indent=1, default=str)
        if nprint < 40:
            print('VIOLATION property=%s replay=%s  # %s' % (prop, path, v['violation'].get('what', '')[:300]))
            nprint += 1
    if overflow > 0 and not new_viol:
        print('VIOLATION property=%s replay=%s  # %d violations beyond the recording cap' % (prop, 'out/', overflow))

    wall = time.time() - t0
    samples = []
    for cls, cs in sorted(m['samples'].items()):
        for c in cs[:1]:
            samples.append({'outcome': cls, 'case': c})
    cov = {
        'evaluations': m['evaluations'],
        'distinct_nontrivial': m['nontrivial'],
        'rule': getattr(mod, 'RULE', ''),
        'samples': samples[:24],
        'exhaustive': bool(getattr(mod, 'EXHAUSTIVE', True)) and not m['extra'].get('cap_hit'),
        'outcome_histogram': m['hist'],
        'hashseed': hashseed,
        'workers': nshards,
        'determinism_head_cases_run_twice': det,
        'bounds': mod.bounds(tier) if hasattr(mod, 'bounds') else None,
        'known_findings_hit': {k: n for k, (_, n) in known_hits.items()},
    }
    if m['states']:
        cov['states'] = m['states']
        cov['transitions'] = m['transitions']
        cov['traces_validated_against_impl'] = m['extra'].get('traces', m['evaluations'])
    else:
        cov['traces_validated_against_impl'] = m['evaluations']
    for k, v in m['extra'].items():
        cov.setdefault('x_' + k, v)
    ev = {
        'property_id': prop, 'tier': tier, 'seed': seed, 'level': mod.LEVEL, 'coverage': cov,
        'assumptions': list(getattr(mod, 'ASSUMPTIONS', [])), 'wall_s': round(wall, 2),
        'violations': len(seen_sig) + (1 if overflow > 0 and not new_viol else 0),
    }
    validate_evidence(ev)
    os.makedirs(os.path.join(VERIF, 'evidence'), exist_ok=True)
    with open(os.path.join(VERIF, 'evidence', prop + '.json'), 'w') as f:
        json.dump(ev, f, indent=1, default=str)
        f.write('\n')

    print('%s tier=%s evaluations=%d nontrivial=%d states=%d transitions=%d hist=%s wall=%.1fs' % (
        prop, tier, m['evaluations'], m['nontrivial'], m['states'], m['transitions'],
        json.dumps(m['hist'], sort_keys=True), wall))
    # vacuity guard
    if m['evaluations'] == 0 or (len(m['hist']) < 2 and not getattr(mod, 'SINGLE_CLASS_OK', False)):
        print('CHECK-BROKEN %s: vacuous exploration (hist=%s)' % (prop, m['hist']))
        return 2
    if seen_sig or overflow > 0 and not new_viol:
        return 1
    return 0


def replay_main(argv):
    prop, path = argv
    import_holpy()
    mod = importlib.import_module('mc.props.' + prop.lower())
    with open(path) as f:
        rec = json.load(f)
    if hasattr(mod, 'setup'):
        with quiet():
            mod.setup(rec.get('tier', 'quick'))
    print('replaying', json.dumps(rec['case'], default=str)[:2000])
    if hasattr(mod, 'replay'):
        rc = mod.replay(rec['case'])
        if rc == 1:
            print('VIOLATION property=%s replay=%s' % (prop, path))
        return rc
    with quiet():
        st, val = call_with_budget(lambda: mod.run(rec['case']), max(20.0, 2 * getattr(mod, 'WALL_S', 20.0)), max(10000000, getattr(mod, 'LINE_BUDGET', 10000000)))
    if st == 'hang':
        print('HANG')
        print('VIOLATION property=%s replay=%s' % (prop, path))
        return 1
    if st == 'exc':
        raise val
    print('outcome:', val.cls)
    if val.violation:
        print(json.dumps(val.violation, indent=1, default=str))
        print('VIOLATION property=%s replay=%s' % (prop, path))
        return 1
    return 0


if __name__ == '__main__':
    if sys.argv[1] == '--worker':
        worker_main(sys.argv[2:])
    elif sys.argv[1] == '--replay':
        sys.exit(replay_main(sys.argv[2:]))
    else:
        sys.exit(main(sys.argv[1:]))
