"""C14 — every suggested proof step is applicable and does what the suggestion says (E2, see mc/pstate.py)."""
from mc import pstate

ID = 'C14'
LEVEL = 'model_checking'
RULE = ('every state reached by the C13 search (same goals, same bounds) and every prefix of the recorded library proofs of the tier; '
        'every gap x every selection of <=2 visible facts x every entry returned by search_method: an entry without open declared '
        'parameters must apply (on a copy) or ask for named parameters, never fail outright; on success the new open goals are among '
        'the advertised _goal, a "solves" entry leaves none, every advertised _fact is a proved line, and the full re-check and the '
        'C13 invariants hold. states = distinct proof states, transitions = (state, selection, suggestion) triples.')
ASSUMPTIONS = ['state merging by exported proof + variables (every method reads only state.prf and state.vars)',
               'z3 is switched off (z3wrapper.check_z3 = False) as in server.monitor']
bounds = pstate.bounds


def setup(tier):
    from logic import basic
    from server import server, method  # noqa
    basic.load_theory('set')


def explore(tier, shard, nshards, agg):
    pstate.explore(tier, shard, nshards, agg, 'C14')


def replay(case):
    return pstate.replay(case, 'C14')
