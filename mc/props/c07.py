"""C07 — printing then parsing a type, term, sequent or proof step is the identity.  E1 (+ print histories)."""
import itertools

from mc import ref, gen
from mc.engine import Outcome, tier_param
from mc.ref import BOOL, fun, funs

ID = 'C07'
LEVEL = 'exploration'
WALL_S = 30.0
LINE_BUDGET = 60000000
RULE = ('terms over the signature of theory "real": every operator/binder/special form (if, function update, literal list/set, '
        'set comprehension, numerals at nat/int/real) applied to leaves, then every such form in every argument position of every '
        'other form (depth 2; thorough: depth 3 along both spines), plus all binder nests of depth<=3 with binder names from '
        '{x,x1,y} against free x,x1, plus polymorphic constants in (un)determined positions; each printed under unicode x '
        'line_length{None,20,80} x highlight(flattened) and parsed back in a context declaring its free variables; types up to '
        'size 4, sequents, instantiations and proof steps of every argument signature; print histories A;B vs B alone for '
        'alpha-variants. distinct_nontrivial = distinct terms that printed and whose text was parsed and compared.')
ASSUMPTIONS = ['reference alpha-equality (mc/ref.py); every generated term is checked against the theory signature (thy.check_term) '
               'and by the reference type checker before it is used']

A = ('tv', 'a')
NAT = ('tc', 'nat', ())
INT = ('tc', 'int', ())
REAL = ('tc', 'real', ())


def LIST(T):
    return ('tc', 'list', (T,))


def SET(T):
    return ('tc', 'set', (T,))


def v(n, T):
    return ('v', n, T)


def c(n, T):
    return ('c', n, T)


def app(h, *args):
    for z in args:
        h = ('app', h, z)
    return h


def bounds(tier):
    return tier_param(tier, {'nesting_depth': 2, 'binder_depth': 3, 'type_size': 4}, {'nesting_depth': 3, 'binder_depth': 3, 'type_size': 5})


# ------------------------------------------------------------------------------ building blocks

def numeral(n, T):
    from kernel.term import Nat, Int, Real
    return ref.conv_term({NAT: Nat, INT: Int, REAL: Real}[T](n))


def leaves():
    L = {
        NAT: [v('m', NAT), v('n', NAT), numeral(0, NAT), numeral(1, NAT), numeral(2, NAT), numeral(10, NAT)],
        INT: [v('i', INT), v('j', INT), numeral(0, INT), numeral(2, INT)],
        REAL: [v('x', REAL), v('y', REAL), numeral(0, REAL), numeral(1, REAL), numeral(10, REAL)],
        BOOL: [v('p', BOOL), v('q', BOOL), c('true', BOOL), c('false', BOOL)],
        A: [v('a', A), v('b', A)],
        SET(A): [v('S', SET(A)), v('T', SET(A)), c('empty_set', SET(A))],
        SET(NAT): [v('U', SET(NAT))],
        SET(SET(A)): [v('SS', SET(SET(A)))],
        LIST(A): [v('xs', LIST(A)), v('ys', LIST(A)), c('nil', LIST(A))],
        LIST(NAT): [v('ns', LIST(NAT))],
        fun(NAT, NAT): [v('f', fun(NAT, NAT)), v('g', fun(NAT, NAT))],
        fun(A, BOOL): [v('P', fun(A, BOOL))],
        fun(A, A): [v('h', fun(A, A))],
        funs(NAT, NAT, NAT): [v('k', funs(NAT, NAT, NAT))],
    }
    return L


def constructors():
    """list of (label, result type, [arg types], builder(args)->term)"""
    C = []

    def const_op(name, T, label=None):
        Ts = []
        R = T
        while ref.is_fun(R):
            Ts.append(R[2][0])
            R = R[2][1]
        return (label or name, R, Ts, lambda args, name=name, T=T: app(c(name, T), *args))

    def const_op_n(name, T, n, label=None):
        Ts = []
        R = T
        for _ in range(n):
            Ts.append(R[2][0])
            R = R[2][1]
        return (label or name, R, Ts, lambda args, name=name, T=T: app(c(name, T), *args))

    for T in (NAT, INT, REAL, A, BOOL, SET(A), LIST(A), fun(NAT, NAT)):
        C.append(const_op('equals', funs(T, T, BOOL), 'equals@' + ref.show_type(T)))
    for n in ('implies', 'conj', 'disj'):
        C.append(const_op(n, funs(BOOL, BOOL, BOOL)))
    C.append(const_op('neg', fun(BOOL, BOOL)))
    for T in (NAT, INT, REAL):
        for n in ('plus', 'minus', 'times'):
            C.append(const_op(n, funs(T, T, T), n + '@' + T[1]))
        for n in ('less_eq', 'less', 'greater_eq', 'greater'):
            C.append(const_op(n, funs(T, T, BOOL), n + '@' + T[1]))
    for T in (INT, REAL):
        C.append(const_op('uminus', fun(T, T), 'uminus@' + T[1]))
    C.append(const_op('power', funs(NAT, NAT, NAT), 'power@nat'))
    C.append(const_op('power', funs(REAL, NAT, REAL), 'power@real'))
    C.append(const_op('real_divide', funs(REAL, REAL, REAL)))
    C.append(const_op('nat_divide', funs(NAT, NAT, NAT)))
    C.append(const_op('nat_modulus', funs(NAT, NAT, NAT)))
    C.append(const_op('append', funs(LIST(A), LIST(A), LIST(A))))
    C.append(const_op('cons', funs(A, LIST(A), LIST(A))))
    C.append(const_op('member', funs(A, SET(A), BOOL)))
    C.append(const_op('subset', funs(SET(A), SET(A), BOOL)))
    C.append(const_op('inter', funs(SET(A), SET(A), SET(A))))
    C.append(const_op('union', funs(SET(A), SET(A), SET(A))))
    C.append(const_op('Union', fun(SET(SET(A)), SET(A))))
    C.append(const_op('Inter', fun(SET(SET(A)), SET(A))))
    C.append(const_op_n('comp_fun', funs(fun(NAT, NAT), fun(NAT, NAT), fun(NAT, NAT)), 2))
    C.append(const_op('Suc', fun(NAT, NAT)))
    C.append(const_op('of_nat', fun(NAT, REAL), 'of_nat@real'))
    C.append(const_op('of_nat', fun(NAT, INT), 'of_nat@int'))
    C.append(const_op('of_int', fun(INT, REAL)))
    C.append(const_op('length', fun(LIST(A), NAT)))
    C.append(const_op('abs', fun(REAL, REAL), 'abs@real'))
    C.append(const_op('max', funs(NAT, NAT, NAT), 'max@nat'))
    C.append(const_op('insert', funs(A, SET(A), SET(A))))
    C.append(const_op('IF', funs(BOOL, NAT, NAT, NAT), 'if@nat'))
    C.append(const_op('IF', funs(BOOL, BOOL, BOOL, BOOL), 'if@bool'))
    C.append(const_op('IF', funs(BOOL, REAL, REAL, REAL), 'if@real'))
    # applications of variables
    C.append(('f-app', NAT, [NAT], lambda args: app(v('f', fun(NAT, NAT)), *args)))
    C.append(('k-app', NAT, [NAT, NAT], lambda args: app(v('k', funs(NAT, NAT, NAT)), *args)))
    C.append(('P-app', BOOL, [A], lambda args: app(v('P', fun(A, BOOL)), *args)))
    C.append(('h-app', A, [A], lambda args: app(v('h', fun(A, A)), *args)))
    # function update (f)(a := b)
    C.append(('fun_upd', fun(NAT, NAT), [fun(NAT, NAT), NAT, NAT],
              lambda args: app(c('fun_upd', funs(fun(NAT, NAT), NAT, NAT, fun(NAT, NAT))), *args)))
    C.append(('fun_upd-app', NAT, [fun(NAT, NAT), NAT, NAT, NAT],
              lambda args: app(c('fun_upd', funs(fun(NAT, NAT), NAT, NAT, fun(NAT, NAT))), *args)))
    # literal list / set with two members
    C.append(('list2', LIST(A), [A, A], lambda args: app(c('cons', funs(A, LIST(A), LIST(A))), args[0],
                                                         app(c('cons', funs(A, LIST(A), LIST(A))), args[1], c('nil', LIST(A))))))
    C.append(('natlist2', LIST(NAT), [NAT, NAT], lambda args: app(c('cons', funs(NAT, LIST(NAT), LIST(NAT))), args[0],
                                                                  app(c('cons', funs(NAT, LIST(NAT), LIST(NAT))), args[1], c('nil', LIST(NAT))))))
    C.append(('set2', SET(A), [A, A], lambda args: app(c('insert', funs(A, SET(A), SET(A))), args[0],
                                                       app(c('insert', funs(A, SET(A), SET(A))), args[1], c('empty_set', SET(A))))))
    # binders over a body that is a predicate applied to the bound variable, or any bool argument
    for b in ('all', 'exists', 'exists1'):
        C.append((b + '-nat', BOOL, [BOOL], lambda args, b=b: app(c(b, fun(fun(NAT, BOOL), BOOL)), ('abs', 'z', NAT, args[0]))))
        C.append((b + '-a', BOOL, [], lambda args, b=b: app(c(b, fun(fun(A, BOOL), BOOL)), ('abs', 'z', A, app(v('P', fun(A, BOOL)), ('b', 0))))))
    for b in ('The', 'Some'):
        C.append((b + '-a', A, [], lambda args, b=b: app(c(b, fun(fun(A, BOOL), A)), ('abs', 'z', A, app(v('P', fun(A, BOOL)), ('b', 0))))))
        C.append((b + '-nat', NAT, [BOOL], lambda args, b=b: app(c(b, fun(fun(NAT, BOOL), NAT)), ('abs', 'z', NAT, args[0]))))
    C.append(('lambda-nat', fun(NAT, NAT), [NAT], lambda args: ('abs', 'z', NAT, args[0])))
    C.append(('lambda-b0', fun(NAT, NAT), [], lambda args: ('abs', 'z', NAT, app(c('Suc', fun(NAT, NAT)), ('b', 0)))))
    C.append(('collect', SET(A), [], lambda args: app(c('collect', fun(fun(A, BOOL), SET(A))), ('abs', 'z', A, app(v('P', fun(A, BOOL)), ('b', 0))))))
    C.append(('collect-nat', SET(NAT), [BOOL], lambda args: app(c('collect', fun(fun(NAT, BOOL), SET(NAT))), ('abs', 'z', NAT, args[0]))))
    return C


def level1(L, C, nleaf=2):
    out = {}
    for label, R, Ts, build in C:
        pools = [L.get(T, [])[:nleaf] for T in Ts]
        for args in itertools.product(*pools):
            out.setdefault(R, []).append((label, build(list(args))))
    return out


def nestings(L, C, inner, first_only=True):
    """every constructor with one argument position filled by each inner term, other positions by the first leaf"""
    out = []
    for label, R, Ts, build in C:
        for pos, T in enumerate(Ts):
            for ilabel, it in inner.get(T, []):
                args = []
                ok = True
                for j, Tj in enumerate(Ts):
                    if j == pos:
                        args.append(it)
                    else:
                        lv = L.get(Tj, [])
                        if not lv:
                            ok = False
                            break
                        args.append(lv[0])
                if ok:
                    out.append((label + '[' + str(pos) + ':' + ilabel + ']', R, build(args)))
    return out


def binder_nests(depth):
    """lambda / quantifier nests with clashing names"""
    P2 = v('R', funs(A, A, BOOL))
    x, x1 = v('x', A), v('x1', A)
    names = ['x', 'x1', 'y']
    out = []
    qs = [lambda nm, body: app(c('all', fun(fun(A, BOOL), BOOL)), ('abs', nm, A, body)),
          lambda nm, body: app(c('exists', fun(fun(A, BOOL), BOOL)), ('abs', nm, A, body)),
          lambda nm, body: app(c('exists1', fun(fun(A, BOOL), BOOL)), ('abs', nm, A, body))]
    # depth 1..3: bodies R u w with u,w among bound/free
    for d in range(1, depth + 1):
        for nms in itertools.product(names, repeat=d):
            cands = [('b', i) for i in range(d)] + [x, x1]
            for u in cands:
                for w in cands:
                    body = app(P2, u, w)
                    for qsel in (itertools.product(range(3), repeat=d) if d <= 2 else [(0,) * d, (1,) * d, (0, 1, 2)]):
                        t = body
                        for nm, qi in zip(reversed(nms), reversed(qsel)):
                            t = qs[qi](nm, t)
                        out.append(t)
            # lambda nests applied
            for u in [('b', i) for i in range(d)] + [x]:
                t = app(v('h', fun(A, A)), u)
                for nm in reversed(nms):
                    t = ('abs', nm, A, t)
                out.append(t)
    # sibling binders suggesting the same name, the second mentioning the free variable
    for n1 in names:
        for n2 in names:
            for fr in (x, x1):
                out.append(app(c('conj', funs(BOOL, BOOL, BOOL)),
                               qs[0](n1, app(v('P', fun(A, BOOL)), ('b', 0))), qs[0](n2, app(P2, ('b', 0), fr))))
                out.append(app(c('conj', funs(BOOL, BOOL, BOOL)),
                               qs[0](n1, app(P2, ('b', 0), fr)), qs[1](n2, app(P2, fr, ('b', 0)))))
    return out


def poly_terms():
    out = []
    LA, LN = LIST(A), LIST(NAT)
    out.append(app(c('equals', funs(LA, LA, BOOL)), c('nil', LA), c('nil', LA)))
    out.append(app(c('equals', funs(LN, LN, BOOL)), c('nil', LN), c('nil', LN)))
    out.append(app(c('equals', funs(SET(A), SET(A), BOOL)), c('empty_set', SET(A)), c('empty_set', SET(A))))
    out.append(app(c('equals', funs(SET(NAT), SET(NAT), BOOL)), c('empty_set', SET(NAT)), c('univ', SET(NAT))))
    out.append(app(c('length', fun(LN, NAT)), c('nil', LN)))
    out.append(app(c('length', fun(LA, NAT)), c('nil', LA)))
    out.append(app(c('equals', funs(NAT, NAT, BOOL)), numeral(0, NAT), numeral(1, NAT)))
    out.append(app(c('equals', funs(REAL, REAL, BOOL)), numeral(0, REAL), numeral(1, REAL)))
    out.append(app(c('equals', funs(INT, INT, BOOL)), numeral(2, INT), numeral(2, INT)))
    out.append(app(c('less', funs(REAL, REAL, BOOL)), numeral(0, REAL), numeral(2, REAL)))
    out.append(app(c('equals', funs(REAL, REAL, BOOL)), app(c('of_nat', fun(NAT, REAL)), v('n', NAT)), numeral(2, REAL)))
    out.append(app(c('all', fun(fun(REAL, BOOL), BOOL)), ('abs', 'x', REAL, app(c('less_eq', funs(REAL, REAL, BOOL)), numeral(0, REAL), ('b', 0)))))
    out.append(app(c('all', fun(fun(NAT, BOOL), BOOL)), ('abs', 'x', NAT, app(c('less_eq', funs(NAT, NAT, BOOL)), numeral(0, NAT), ('b', 0)))))
    out.append(app(c('all', fun(fun(A, BOOL), BOOL)), ('abs', 'x', A, app(c('equals', funs(A, A, BOOL)), ('b', 0), ('b', 0)))))
    out.append(app(c('all', fun(fun(INT, BOOL), BOOL)), ('abs', 'x', INT, app(c('equals', funs(INT, INT, BOOL)), ('b', 0), ('b', 0)))))
    out.append(('abs', 'x', NAT, ('b', 0)))
    out.append(('abs', 'x', A, ('abs', 'y', BOOL, ('b', 1))))
    out.append(app(c('equals', funs(fun(A, A), fun(A, A), BOOL)), ('abs', 'x', A, ('b', 0)), v('h', fun(A, A))))
    out.append(app(c('member', funs(NAT, SET(NAT), BOOL)), numeral(1, NAT), c('univ', SET(NAT))))
    out.append(app(c('subset', funs(SET(REAL), SET(REAL), BOOL)), c('empty_set', SET(REAL)), c('univ', SET(REAL))))
    out.append(app(c('plus', funs(REAL, REAL, REAL)), numeral(1, REAL), app(c('real_divide', funs(REAL, REAL, REAL)), numeral(1, REAL), numeral(2, REAL))))
    out.append(app(c('uminus', fun(REAL, REAL)), numeral(1, REAL)))
    out.append(app(c('uminus', fun(INT, INT)), numeral(2, INT)))
    out.append(app(c('power', funs(REAL, NAT, REAL)), app(c('uminus', fun(REAL, REAL)), v('x', REAL)), numeral(2, NAT)))
    out.append(app(c('uminus', fun(REAL, REAL)), app(c('power', funs(REAL, NAT, REAL)), v('x', REAL), numeral(2, NAT))))
    return out


_S = {}


def all_terms(tier):
    if 'terms' in _S:
        return _S['terms']
    L = leaves()
    C = constructors()
    l1 = level1(L, C)
    terms = []
    seen = set()

    def add(label, t):
        if t not in seen:
            seen.add(t)
            terms.append((label, t))
    for R, lst in l1.items():
        for label, t in lst:
            add(label, t)
    # depth 2: inner terms = level-1 terms built from the FIRST leaves only (one representative per constructor)
    rep = level1(L, C, nleaf=1)
    for label, R, t in nestings(L, C, rep):
        add(label, t)
    if bounds(tier)['nesting_depth'] >= 3:
        # depth 3 along the spines: nest the depth-2 terms once more in first / last argument positions of binary forms
        d2 = {}
        for label, R, t in nestings(L, C, rep):
            d2.setdefault(R, []).append((label, t))
        for label, R, Ts, build in C:
            if len(Ts) != 2:
                continue
            for pos in (0, 1):
                for ilabel, it in d2.get(Ts[pos], [])[::3]:
                    other = L.get(Ts[1 - pos], [])
                    if not other:
                        continue
                    args = [it, other[0]] if pos == 0 else [other[0], it]
                    add(label + '{' + str(pos) + ':' + ilabel + '}', build(args))
    for t in binder_nests(bounds(tier)['binder_depth']):
        add('binders', t)
    for t in poly_terms():
        add('poly', t)
    _S['terms'] = terms
    return terms


def cases(tier):
    n = len(all_terms(tier))
    for i in range(n):
        yield ['term', i]
    for i, T in enumerate(type_cases(tier)):
        yield ['type', i]
    for i in range(len(item_cases())):
        yield ['item', i]


def type_cases(tier):
    base = gen.types_upto(bounds(tier)['type_size'], [BOOL, NAT, A, ('stv', 'a'), ('tv', 'b')])
    extra = [LIST(A), SET(fun(A, BOOL)), LIST(fun(NAT, NAT)), fun(LIST(A), SET(A)), SET(SET(NAT)), fun(fun(A, A), LIST(LIST(A))),
             ('tc', 'prod', (A, NAT)), fun(('tc', 'prod', (A, NAT)), BOOL), LIST(('tc', 'prod', (fun(A, A), NAT)))]
    return base + extra


def item_cases():
    """proof steps of every argument signature"""
    p = v('p', BOOL)
    items = [
        ('assume', ('term', p), None),
        ('implies_intr', ('term', app(c('conj', funs(BOOL, BOOL, BOOL)), p, v('q', BOOL))), None),
        ('forall_intr', ('term', v('a', A)), None),
        ('substitution', ('inst', {'A': p, 'B': app(c('neg', fun(BOOL, BOOL)), p)}), None),
        ('substitution', ('inst', {}), None),
        ('subst_type', ('tyinst', {'a': NAT}), None),
        ('subst_type', ('tyinst', {'a': fun(NAT, BOOL), 'b': LIST(A)}), None),
        ('theorem', ('str', 'conjI'), None),
        ('apply_theorem_for', ('str_inst', 'conjI', {'A': p}), None),
        ('rewrite_goal', ('str_term', 'double_neg', app(c('neg', fun(BOOL, BOOL)), app(c('neg', fun(BOOL, BOOL)), p))), None),
        ('variable', ('str_type', 'n', NAT), None),
        ('variable', ('str_type', 'f', fun(A, LIST(A))), None),
        ('intros', ('terms', [p, app(v('P', fun(A, BOOL)), v('a', A))]), None),
        ('sorry', None, ((p,), p)),
        ('sorry', None, ((), app(c('implies', funs(BOOL, BOOL, BOOL)), p, p))),
        ('sorry', None, ((p, app(v('P', fun(A, BOOL)), v('a', A))), app(c('conj', funs(BOOL, BOOL, BOOL)), p, p))),
    ]
    return items


# ------------------------------------------------------------------------------ running

def setup(tier):
    from logic import basic
    from logic import logic  # noqa
    basic.load_theory('real')
    all_terms(tier)
    # drop generated terms that the theory or the reference checker does not accept (reported in the evidence)
    from kernel import theory
    good = []
    dropped = []
    for label, t in _S['terms']:
        try:
            ref.typeof(t)
            theory.thy.check_term(ref.to_term(t))
            good.append((label, t))
        except Exception as e:
            dropped.append(label)
    _S['terms'] = good
    _S['dropped'] = dropped


def viol(kind, case, what):
    return Outcome(kind.upper(), violation={'signature': kind + ':' + repr(case), 'what': what})


def flatten(res):
    """printed output -> plain text"""
    if isinstance(res, str):
        return res
    if res and isinstance(res[0], dict):
        return ''.join(n['text'] for n in res)
    lines = []
    for line in res:
        if isinstance(line, str):
            lines.append(line)
        else:
            lines.append(''.join(n['text'] for n in line))
    return '\n'.join(lines)


CONFIGS = [(u, ll, hl) for u in (False, True) for ll in (None, 20, 80) for hl in (False, True)]


def free_ctx(t):
    vs = {}
    svs = {}
    for a in ref.free_atoms(t):
        if a[0] == 'v':
            vs[a[1]] = ref.to_type(a[2])
        elif a[0] == 'sv':
            svs[a[1]] = ref.to_type(a[2])
    return vs, svs


def roundtrip_term(t, case, cfgs=CONFIGS, clear=True):
    from syntax import printer, parser, pprint
    from syntax.settings import global_setting
    from logic import context
    h = ref.to_term(t)
    vs, svs = free_ctx(t)
    texts = set()
    for (u, ll, hl) in cfgs:
        if clear:
            pprint.term_ast.clear()
        try:
            with global_setting(unicode=u, line_length=ll, highlight=hl):
                s = flatten(printer.print_term(h))
        except Exception as e:
            return None, viol('print-exc', case, 'printing %s raised %s: %s (unicode=%s line_length=%s highlight=%s)' % (
                ref.show(t), type(e).__name__, e, u, ll, hl))
        texts.add(s)
        with context.fresh_context(vars=vs, svars=svs):
            try:
                back = parser.parse_term(s)
            except Exception as e:
                return None, viol('parse-exc', case, 'printed text %r of %s does not parse: %s: %s (unicode=%s line_length=%s highlight=%s)' % (
                    s, ref.show(t), type(e).__name__, str(getattr(e, 'err', e))[:200], u, ll, hl))
        try:
            rb = ref.conv_term(back)
        except Exception as e:
            return None, viol('parse-bad', case, 'parsing %r gave a malformed term: %s' % (s, e))
        if ref.akey(rb) != ref.akey(t):
            return None, viol('roundtrip', case, 'term %s printed as %r parses back as %s (unicode=%s line_length=%s highlight=%s)' % (
                ref.show(t), s, ref.show(rb), u, ll, hl))
        if not (back == h):
            return None, viol('roundtrip-eq', case, 'parse(print(t)) != t by holpy equality for %s' % ref.show(t))
    return texts, None


def run_term(case):
    label, t = _S['terms'][case[1]]
    texts, bad = roundtrip_term(t, case + [label])
    if bad:
        return bad
    # history: print an alpha-variant first (different bound names), then t, without clearing the memo table
    var = rename_bound(t)
    if var != t:
        from syntax import pprint
        pprint.term_ast.clear()
        _, bad = roundtrip_term(var, case + [label, 'variant'], cfgs=[(False, None, False), (True, None, False)], clear=False)
        if bad:
            return bad
        texts2, bad = roundtrip_term(t, case + [label, 'after-variant'], cfgs=[(False, None, False), (True, None, False)], clear=False)
        if bad:
            return bad
        if not texts2 <= texts:
            return viol('history', case + [label], 'printing %s after its alpha-variant gives %r, alone %r' % (ref.show(t), sorted(texts2), sorted(texts)))
    return Outcome('term-ok', True, obs=label)


def rename_bound(t):
    k = t[0]
    if k == 'app':
        return ('app', rename_bound(t[1]), rename_bound(t[2]))
    if k == 'abs':
        return ('abs', {'x': 'y', 'y': 'x1', 'x1': 'x', 'z': 'w'}.get(t[1], t[1] + '0'), t[2], rename_bound(t[3]))
    return t


def run_type(case, tier):
    from syntax import printer, parser
    from syntax.settings import global_setting
    T = type_cases(tier)[case[1]]
    h = ref.to_type(T)
    for u in (False, True):
        for hl in (False, True):
            with global_setting(unicode=u, highlight=hl):
                s = flatten(printer.print_type(h))
            try:
                back = parser.parse_type(s, check_type=False)
            except Exception as e:
                return viol('type-parse-exc', case, 'printed type %r of %s does not parse: %s' % (s, ref.show_type(T), e))
            if ref.conv_type(back) != T:
                return viol('type-roundtrip', case, 'type %s printed as %r parses back as %s' % (ref.show_type(T), s, ref.show_type(ref.conv_type(back))))
    return Outcome('type-ok', True, obs='T')


def build_item(rule, arg, th):
    from kernel.proof import ProofItem
    from kernel.term import Inst
    from kernel.type import TyInst
    from kernel.thm import Thm
    a = None
    if arg is not None:
        k = arg[0]
        if k == 'term':
            a = ref.to_term(arg[1])
        elif k == 'inst':
            a = Inst(**{n: ref.to_term(x) for n, x in arg[1].items()})
        elif k == 'tyinst':
            a = TyInst(**{n: ref.to_type(x) for n, x in arg[1].items()})
        elif k == 'str':
            a = arg[1]
        elif k == 'str_inst':
            a = (arg[1], Inst(**{n: ref.to_term(x) for n, x in arg[2].items()}))
        elif k == 'str_term':
            a = (arg[1], ref.to_term(arg[2]))
        elif k == 'str_type':
            a = (arg[1], ref.to_type(arg[2]))
        elif k == 'terms':
            a = [ref.to_term(x) for x in arg[1]]
    t = None
    if th is not None:
        t = Thm(ref.to_term(th[1]), *[ref.to_term(x) for x in th[0]])
    return ProofItem(3, rule, args=a, prevs=[1, 2] if rule not in ('sorry', 'theorem', 'variable', 'assume') else [], th=t)


def canon_arg(a):
    from kernel.term import Term, Inst
    from kernel.type import Type, TyInst
    if isinstance(a, Inst):
        return ('inst', sorted((k, ref.akey(ref.conv_term(x))) for k, x in a.items()), sorted((k, ref.conv_type(T)) for k, T in a.tyinst.items()))
    if isinstance(a, TyInst):
        return ('tyinst', sorted((k, ref.conv_type(T)) for k, T in a.items()))
    if isinstance(a, Term):
        return ('term', ref.akey(ref.conv_term(a)))
    if isinstance(a, Type):
        return ('type', ref.conv_type(a))
    if isinstance(a, (tuple, list)):
        return tuple(canon_arg(x) for x in a)
    return a


def run_item(case):
    from syntax import printer, parser
    from syntax.settings import global_setting
    from logic import context
    rule, arg, th = item_cases()[case[1]]
    item = build_item(rule, arg, th)
    vs = {'p': ref.to_type(BOOL), 'q': ref.to_type(BOOL), 'a': ref.to_type(A), 'P': ref.to_type(fun(A, BOOL))}
    for u in (False, True):
        try:
            with global_setting(unicode=u, highlight=False):
                data = printer.export_proof_item(item)[0]
        except Exception as e:
            return viol('item-export-exc', case, 'export of step %s raised %s: %s' % (rule, type(e).__name__, e))
        with context.fresh_context(vars=vs, svars={'A': ref.to_type(BOOL), 'B': ref.to_type(BOOL)}):
            try:
                back = parser.parse_proof_rule(data)
            except Exception as e:
                return viol('item-parse-exc', case, 'exported step %r does not parse back: %s: %s' % (data, type(e).__name__, str(e)[:200]))
        if back.rule != item.rule or [str(q) for q in back.prevs] != [str(q) for q in item.prevs] or str(back.id) != str(item.id):
            return viol('item-roundtrip', case, 'exported step %r parses back as a different step %s' % (data, back))
        if canon_arg(back.args) != canon_arg(item.args):
            return viol('item-args', case, 'exported step %r parses back with different arguments: %r vs %r' % (data, canon_arg(back.args), canon_arg(item.args)))
        if (back.th is None) != (item.th is None) or (item.th is not None and ref.thm_key(ref.conv_thm(back.th)) != ref.thm_key(ref.conv_thm(item.th))):
            return viol('item-th', case, 'exported step %r parses back with a different sequent' % (data,))
    return Outcome('item-ok', True, obs='I')


_TIER = ['quick']
_setup0 = setup


def setup(tier):  # noqa
    _TIER[0] = tier
    _setup0(tier)


def run(case):
    if case[0] == 'term':
        if case[1] >= len(_S['terms']):
            return Outcome('dropped-term')
        return run_term(case)
    if case[0] == 'type':
        return run_type(case, _TIER[0])
    return run_item(case)
