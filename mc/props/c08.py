"""C08 — type inference returns only well-typed, fully determined terms.  E1, oracle: reference type checker."""
import itertools

from mc import ref, gen
from mc.engine import Outcome, tier_param
from mc.ref import BOOL, fun, funs

ID = 'C08'
LEVEL = 'exploration'
WALL_S = 20.0
LINE_BUDGET = 30000000
RULE = ('(a) every well-typed term up to the size bound over the signature of theory "list" (equals, conj, all, plus, zero, Suc, '
        'nil, cons, polymorphic and overloaded constants; higher-order variables; binders) x every erasure pattern of its type '
        'annotations (variables per occurrence, constants, binders; all 2^k patterns for k<=7, else 8 fixed patterns) x context '
        'declaring all / none / one of its variables; (b) every untyped skeleton with <=4 applications and <=2 abstractions over '
        'variables f,g,x and constants conj/equals, with none/some variable types declared. distinct_nontrivial = distinct '
        '(term, pattern, context) on which inference returned a term that the reference checker judged.')
ASSUMPTIONS = ['reference type checker mc/ref.py; constant signatures read from theory.thy.get_term_sig']

A = ('tv', 'a')
NAT = ('tc', 'nat', ())


def LIST(T):
    return ('tc', 'list', (T,))


def v(n, T):
    return ('v', n, T)


def bounds(tier):
    return tier_param(tier, {'term_size': 6, 'skeleton_apps': 3, 'skeleton_abs': 1}, {'term_size': 7, 'skeleton_apps': 4, 'skeleton_abs': 2})


X, Y = v('x', A), v('y', A)
PV = v('p', BOOL)
FV = v('f', fun(A, A))
PP = v('P', fun(A, BOOL))
NV = v('n', NAT)
XS = v('xs', LIST(A))


def EQ(T):
    return ('c', 'equals', funs(T, T, BOOL))


ATOMS = [X, Y, PV, FV, PP, NV, XS,
         EQ(A), EQ(BOOL), EQ(NAT), EQ(LIST(A)), EQ(fun(A, A)),
         ('c', 'conj', funs(BOOL, BOOL, BOOL)), ('c', 'implies', funs(BOOL, BOOL, BOOL)),
         ('c', 'all', fun(fun(A, BOOL), BOOL)), ('c', 'all', fun(fun(NAT, BOOL), BOOL)),
         ('c', 'plus', funs(NAT, NAT, NAT)), ('c', 'zero', NAT), ('c', 'Suc', fun(NAT, NAT)),
         ('c', 'nil', LIST(A)), ('c', 'nil', LIST(NAT)), ('c', 'cons', funs(A, LIST(A), LIST(A))),
         ('c', 'cons', funs(NAT, LIST(NAT), LIST(NAT)))]


def universe(tier):
    g = gen.TermGen(ATOMS, [A, NAT], names=('x', 'y'))
    out = []
    for n in range(1, bounds(tier)['term_size'] + 1):
        for t, T in g.gen(n):
            if n >= 6 and T != BOOL:
                continue
            out.append(t)
    return out


def sites(t, path=()):
    """annotation sites: ('v', path) / ('c', path) / ('abs', path)"""
    k = t[0]
    if k in ('v', 'sv'):
        return [('v', path)]
    if k == 'c':
        return [('c', path)]
    if k == 'app':
        return sites(t[1], path + (1,)) + sites(t[2], path + (2,))
    if k == 'abs':
        return [('abs', path)] + sites(t[3], path + (3,))
    return []


def build_skeleton(t, erased, path=()):
    """holpy term with the annotation at the erased sites set to None"""
    from kernel.term import SVar, Var, Const, Comb, Abs, Bound
    k = t[0]
    if k == 'v':
        return Var(t[1], None if path in erased else ref.to_type(t[2]))
    if k == 'sv':
        return SVar(t[1], None if path in erased else ref.to_type(t[2]))
    if k == 'c':
        return Const(t[1], None if path in erased else ref.to_type(t[2]))
    if k == 'app':
        return Comb(build_skeleton(t[1], erased, path + (1,)), build_skeleton(t[2], erased, path + (2,)))
    if k == 'abs':
        return Abs(t[1], None if path in erased else ref.to_type(t[2]), build_skeleton(t[3], erased, path + (3,)))
    return Bound(t[1])


def shape(t):
    k = t[0]
    if k in ('v', 'sv', 'c'):
        return (k, t[1])
    if k == 'app':
        return ('app', shape(t[1]), shape(t[2]))
    if k == 'abs':
        return ('abs', shape(t[3]))
    return t


def erasure_patterns(ss):
    k = len(ss)
    if k <= 7:
        for bits in itertools.product((0, 1), repeat=k):
            yield frozenset(s[1] for s, b in zip(ss, bits) if b)
    else:
        kinds = [('v',), ('c',), ('abs',), ('v', 'c'), ('v', 'abs'), ('c', 'abs'), ('v', 'c', 'abs'), ()]
        for ks in kinds:
            yield frozenset(s[1] for s in ss if s[0] in ks)


MIX_TYPES = [A, ('stv', 'a'), ('tv', 'b'), ('stv', 'b'), BOOL, fun(A, BOOL), fun(('stv', 'a'), BOOL), NAT]


def cases(tier):
    for i in range(len(MIX_TYPES)):
        for j in range(len(MIX_TYPES)):
            for kind in ('vv', 'sv', 'vs', 'ss'):
                yield ['mix', i, j, kind]
    for i, t in enumerate(universe(tier)):
        yield ['term', i]
    for i, sk in enumerate(skeletons(tier)):
        yield ['skel', i]


# ------------------------------------------------------------------------------ untyped skeletons

def skeletons(tier):
    b = bounds(tier)
    atoms = ['f', 'g', 'x', '&', '=']
    memo = {}

    def gen_(apps, abss, depth):
        key = (apps, abss, depth)
        if key in memo:
            return memo[key]
        out = []
        if apps == 0 and abss == 0:
            out = [('a', a) for a in atoms] + [('b', i) for i in range(depth)]
        else:
            if abss > 0:
                for body in gen_(apps, abss - 1, depth + 1):
                    out.append(('abs', body))
            if apps > 0:
                for la in range(apps):
                    for lb in range(abss + 1):
                        for f in gen_(la, lb, depth):
                            for a in gen_(apps - 1 - la, abss - lb, depth):
                                out.append(('app', f, a))
        memo[key] = out
        return out
    res = []
    for apps in range(0, b['skeleton_apps'] + 1):
        for abss in range(0, b['skeleton_abs'] + 1):
            res.extend(gen_(apps, abss, 0))
    # occurs-check cycles spread over several unifications: 2-3 applications u v (u,v in {f,g,x}; thorough also
    # u (v w)) combined by & / = in all bracketings
    vs = [('a', 'f'), ('a', 'g'), ('a', 'x')]
    units = [('app', u, w) for u in vs for w in vs]
    if tier == 'thorough':
        units += [('app', u, ('app', w, z)) for u in vs for w in vs for z in vs]

    def op(o, l, r):
        return ('app', ('app', ('a', o), l), r)
    for o1 in '&=':
        for c1 in units:
            for c2 in units:
                res.append(op(o1, c1, c2))
    u3 = units if tier == 'quick' else units[:9] + units[9::3]
    for o1 in '&=':
        for o2 in '&=':
            for c1 in u3:
                for c2 in u3:
                    for c3 in u3:
                        res.append(op(o1, op(o2, c1, c2), c3))
                        res.append(op(o1, c1, op(o2, c2, c3)))
    return res


def build_untyped(sk):
    from kernel.term import Var, Const, Comb, Abs, Bound
    k = sk[0]
    if k == 'a':
        if sk[1] == '&':
            return Const('conj', None)
        if sk[1] == '=':
            return Const('equals', None)
        return Var(sk[1], None)
    if k == 'b':
        return Bound(sk[1])
    if k == 'abs':
        return Abs('z', None, build_untyped(sk[1]))
    return Comb(build_untyped(sk[1]), build_untyped(sk[2]))


def show_sk(sk):
    k = sk[0]
    if k == 'a':
        return sk[1]
    if k == 'b':
        return 'B%d' % sk[1]
    if k == 'abs':
        return '(%%z. %s)' % show_sk(sk[1])
    return '(%s %s)' % (show_sk(sk[1]), show_sk(sk[2]))


# ------------------------------------------------------------------------------ judging

_S = {}


def setup(tier):
    from logic import basic
    basic.load_theory('list')
    _S['terms'] = universe(tier)
    _S['skels'] = skeletons(tier)


def viol(kind, case, what):
    return Outcome(kind.upper(), violation={'signature': kind + ':' + repr(case), 'what': what})


def sig_instance(name, T):
    """is T an instance of the declared type of constant `name`?"""
    from kernel import theory
    from kernel.type import TypeMatchException
    try:
        decl = theory.thy.get_term_sig(name, stvar=True)
    except Exception:
        return False
    try:
        decl.match(ref.to_type(T))
        return True
    except TypeMatchException:
        return False


def has_internal(T):
    if T[0] == 'tc':
        return any(has_internal(a) for a in T[2])
    return T[0] == 'stv' and T[1].startswith('_t')


def check_output(out_h, desc, case, declared, annotated_ref=None, erased=None):
    """the unconditional part of the statement; returns Outcome or None"""
    try:
        out = ref.conv_term(out_h)
    except Exception as e:
        return None, viol('leftover', case, 'inference returned a term with missing/malformed types (%s): %s' % (e, desc))
    try:
        ref.typeof(out)
    except ref.IllTyped as e:
        return out, viol('illtyped', case, 'inference returned the ill-typed term %s (%s): %s' % (ref.show(out), e, desc))
    vt = {}
    for a in all_atoms(out):
        if has_internal(a[2]):
            return out, viol('internal', case, 'leftover internal type variable in %s: %s' % (ref.show(out), desc))
        if a[0] in ('v', 'sv'):
            key = (a[0], a[1])
            if key in vt and vt[key] != a[2]:
                return out, viol('two-types', case, 'variable %s occurs at two types in %s: %s' % (a[1], ref.show(out), desc))
            vt[key] = a[2]
            if a[0] == 'v' and a[1] in declared and declared[a[1]] != a[2]:
                return out, viol('declared', case, 'declared type of %s not kept in %s: %s' % (a[1], ref.show(out), desc))
        if a[0] == 'c' and not sig_instance(a[1], a[2]):
            return out, viol('const-instance', case, 'constant %s at a type that is not an instance of its declaration in %s: %s' % (
                a[1], ref.show(out), desc))
    for T in binder_types(out):
        if has_internal(T):
            return out, viol('internal', case, 'leftover internal type variable in a binder of %s: %s' % (ref.show(out), desc))
    return out, None


def all_atoms(t, acc=None):
    if acc is None:
        acc = []
    k = t[0]
    if k == 'app':
        all_atoms(t[1], acc)
        all_atoms(t[2], acc)
    elif k == 'abs':
        all_atoms(t[3], acc)
    elif k != 'b':
        acc.append(t)
    return acc


def binder_types(t):
    k = t[0]
    if k == 'app':
        return binder_types(t[1]) + binder_types(t[2])
    if k == 'abs':
        return [t[2]] + binder_types(t[3])
    return []


def sub_at(t, path):
    for i in path:
        t = t[i]
    return t


OWN_ERRORS = ('TypeInferenceException', 'TheoryException')


def infer_with(skel, declared):
    """returns ('ok', term) | ('err', exception-name, message)"""
    from logic import context
    from syntax import infertype
    with context.fresh_context(vars={k: ref.to_type(T) for k, T in declared.items()}):
        try:
            return ('ok', infertype.type_infer(skel))
        except RecursionError as e:
            return ('err', 'RecursionError', '')
        except Exception as e:
            return ('err', type(e).__name__, str(getattr(e, 'err', e))[:200])


def run_term(case):
    t = _S['terms'][case[1]]
    ss = sites(t)
    fvars = {}
    for a in ref.free_atoms(t):
        if a[0] == 'v':
            fvars[a[1]] = a[2]
    ctxs = [dict(fvars), {}]
    for k in fvars:
        ctxs.append({k: fvars[k]})
    n_ok = n_err = 0
    for erased in erasure_patterns(ss):
        for declared in ctxs:
            skel = build_skeleton(t, erased)
            desc = 'term %s, erased %s, declared %s' % (ref.show(t), sorted(erased), {k: ref.show_type(T) for k, T in declared.items()})
            r = infer_with(skel, declared)
            if r[0] == 'err':
                if r[1] not in OWN_ERRORS:
                    return viol('foreign-error', case + [sorted(erased), sorted(declared)], 'inference fails with %s instead of its own error: %s' % (r[1], desc))
                # all variable types declared and constants+binders kept  =>  must succeed
                kept_cb = not any(s[0] in ('c', 'abs') and s[1] in erased for s in ss)
                if kept_cb and len(declared) == len(fvars):
                    return viol('no-recovery', case + [sorted(erased), sorted(declared)], 'variable types declared, constant and binder types kept, but inference fails (%s): %s' % (r[2], desc))
                n_err += 1
                continue
            out, bad = check_output(r[1], desc, case + [sorted(erased), sorted(declared)], declared)
            if bad:
                return bad
            if shape(out) != shape(t):
                return viol('shape', case + [sorted(erased)], 'shape changed: %s: %s' % (ref.show(out), desc))
            # given annotations kept
            for s in ss:
                if s[1] not in erased:
                    a_in, a_out = sub_at(t, s[1]), sub_at(out, s[1])
                    Tin = a_in[2]
                    Tout = a_out[2]
                    if Tin != Tout:
                        return viol('annotation', case + [sorted(erased)], 'given annotation at %s changed in %s: %s' % (s[1], ref.show(out), desc))
            # erasure of a well-typed term with declared variable types: exact recovery or "under-determined"
            if len(declared) == len(fvars) and ref.akey(out) != ref.akey(t):
                return viol('not-original', case + [sorted(erased)], 'all variable types declared, inference returned %s instead of the original: %s' % (ref.show(out), desc))
            n_ok += 1
    # conflicting annotation: one occurrence of a variable annotated at another type, its other occurrences erased
    occ = {}
    for s in ss:
        if s[0] == 'v':
            occ.setdefault(sub_at(t, s[1])[1], []).append(s[1])
    for nme, paths in occ.items():
        if len(paths) < 2:
            continue
        T0 = fvars[nme]
        for alt in (BOOL, A, fun(A, A)):
            if alt == T0:
                continue
            for pth in paths:
                t2 = replace_at(t, pth, ('v', nme, alt))
                erased = frozenset(q for q in paths if q != pth)
                for declared in ({}, {k: T for k, T in fvars.items() if k != nme}):
                    skel = build_skeleton(t2, erased)
                    desc = 'term %s with the occurrence of %s at %s annotated %s and its other occurrences erased, declared %s' % (
                        ref.show(t), nme, pth, ref.show_type(alt), sorted(declared))
                    r = infer_with(skel, declared)
                    if r[0] == 'err':
                        if r[1] not in OWN_ERRORS:
                            return viol('foreign-error', case + ['conflict', nme, list(pth), ref.show_type(alt)], 'inference fails with %s: %s' % (r[1], desc))
                        n_err += 1
                        continue
                    out, bad = check_output(r[1], desc, case + ['conflict', nme, list(pth), ref.show_type(alt)], declared)
                    if bad:
                        return bad
                    if sub_at(out, pth)[2] != alt:
                        return viol('annotation', case + ['conflict', nme, list(pth)], 'given annotation changed in %s: %s' % (ref.show(out), desc))
                    n_ok += 1
    return Outcome('term-done' if n_ok else 'term-never-inferred', n_ok > 0, obs='%d:%d/%d' % (case[1], n_ok, n_err))


def replace_at(t, path, new):
    if not path:
        return new
    lst = list(t)
    lst[path[0]] = replace_at(t[path[0]], path[1:], new)
    return tuple(lst)


def run_skel(case):
    sk = _S['skels'][case[1]]
    names = sorted(set(x for x in show_sk(sk).replace('(', ' ').replace(')', ' ').split() if x in ('f', 'g', 'x')))
    ctxs = [{}]
    for T in (A, BOOL, fun(A, A), fun(BOOL, BOOL)):
        for nme in names:
            ctxs.append({nme: T})
    if len(names) >= 2:
        ctxs.append({names[0]: fun(A, A), names[1]: A})
        ctxs.append({names[0]: BOOL, names[1]: BOOL})
    n_ok = 0
    for declared in ctxs:
        skel = build_untyped(sk)
        desc = 'skeleton %s, declared %s' % (show_sk(sk), {k: ref.show_type(T) for k, T in declared.items()})
        r = infer_with(skel, declared)
        if r[0] == 'err':
            if r[1] not in OWN_ERRORS:
                return viol('foreign-error', case + [sorted(declared.items())], 'inference fails with %s instead of its own error: %s' % (r[1], desc))
            continue
        out, bad = check_output(r[1], desc, case + [sorted(declared.items())], declared)
        if bad:
            return bad
        n_ok += 1
    return Outcome('skel-done' if n_ok else 'skel-rejected', n_ok > 0, obs='s%d:%d' % (case[1], n_ok))


def on_hang(case):
    return viol('hang', case, 'type inference does not terminate on case %r' % (case,))


def run_mix(case):
    """two declared (schematic) variables of types T1, T2 used where their types must agree"""
    from kernel.term import Var, SVar, Const, Comb
    from logic import context
    from syntax import infertype
    T1, T2 = MIX_TYPES[case[1]], MIX_TYPES[case[2]]
    kind = case[3]
    n_ok = 0
    for shape_ in ('eq', 'eq-rev', 'app'):
        vs, svs = {}, {}
        (svs if kind[0] == 's' else vs)['u'] = ref.to_type(T1)
        if shape_ == 'app':
            (svs if kind[1] == 's' else vs)['w'] = ref.to_type(fun(T2, BOOL))
        else:
            (svs if kind[1] == 's' else vs)['w'] = ref.to_type(T2)
        u = (SVar if kind[0] == 's' else Var)('u', None)
        w = (SVar if kind[1] == 's' else Var)('w', None)
        if shape_ == 'eq':
            skel = Comb(Comb(Const('equals', None), u), w)
        elif shape_ == 'eq-rev':
            skel = Comb(Comb(Const('equals', None), w), u)
        else:
            skel = Comb(w, u)
        desc = 'skeleton %s with u :: %s (%s), w :: %s (%s)' % (shape_, ref.show_type(T1), kind[0], ref.show_type(T2), kind[1])
        with context.fresh_context(vars=vs, svars=svs):
            try:
                out_h = infertype.type_infer(skel)
            except RecursionError:
                return viol('foreign-error', case + [shape_], 'RecursionError: ' + desc)
            except Exception as e:
                if type(e).__name__ not in OWN_ERRORS:
                    return viol('foreign-error', case + [shape_], 'inference fails with %s: %s' % (type(e).__name__, desc))
                if T1 == T2:
                    return viol('no-recovery', case + [shape_], 'types agree but inference fails: ' + desc)
                continue
        out, bad = check_output(out_h, desc, case + [shape_], {})
        if bad:
            return bad
        if T1 != T2:
            return viol('mix-accepted', case + [shape_], 'declared types differ but inference returned %s: %s' % (ref.show(out), desc))
        n_ok += 1
    return Outcome('mix-ok' if n_ok else 'mix-rejected', n_ok > 0, obs='m%d' % n_ok)


def run(case):
    if case[0] == 'mix':
        return run_mix(case)
    if case[0] == 'term':
        return run_term(case)
    return run_skel(case)
