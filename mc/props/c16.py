"""C16 — Omega test and simplex agree with ground truth and return genuine witnesses.  E1."""
import itertools
from fractions import Fraction

from mc.engine import Outcome, tier_param

ID = 'C16'
LEVEL = 'exploration'
WALL_S = 20.0
LINE_BUDGET = 30000000
RULE = ('all systems 0 <= c1*x + c2*y (+ c3*z) + k with coefficients and constants in the tier range and up to the tier number of rows '
        '(zero rows, duplicates, equalities as pairs, unbounded directions included), each given to omega.solve_matrix and (as >=/<= '
        'rows, both orientations) to simplex.Simplex; contradictions of 2-row systems also through OmegaHOL.solve with the proof '
        'checked by the kernel. distinct_nontrivial = distinct systems on which a verdict was returned and judged.')
ASSUMPTIONS = ['oracle: direct evaluation of witnesses; exhaustive integer search in the box [-B,B]^n (a solution found there is '
               'definitive); exact Fourier-Motzkin elimination over the rationals for simplex UNSAT',
               'a wrong contradiction whose only integer solutions lie outside the box would be missed']


def bounds(tier):
    return tier_param(tier,
                      {'2 variables': 'all systems of <=2 rows with entries in -2..2; 3 rows: two rows in -2..2, third in -1..1',
                       '3 variables': '<=2 rows with entries in -1..1', 'no unit coefficients': '2-3 rows, coefficients in {-3,-2,2,3}, constants -1..1', 'box': 8},
                      {'2 variables': 'all systems of <=3 rows with entries in -2..2; <=2 rows in -3..3; 4 rows in -1..1',
                       '3 variables': '<=3 rows with entries in -1..1', 'no unit coefficients': '2-3 rows, coefficients in {-3,-2,2,3}, constants -2..2', 'box': 10})


def systems(tier):
    rows2 = list(itertools.product(range(-2, 3), repeat=3))
    rows1 = list(itertools.product(range(-1, 2), repeat=3))
    for n in (1, 2):
        for m in itertools.product(rows2, repeat=n):
            yield [list(x) for x in m]
    if tier == 'quick':
        for a_ in rows2:
            for b_ in rows2:
                for c_ in rows1:
                    yield [list(a_), list(b_), list(c_)]
    else:
        for m in itertools.product(rows2, repeat=3):
            yield [list(x) for x in m]
        rows3r = list(itertools.product(range(-3, 4), repeat=3))
        for n in (1, 2):
            for m in itertools.product(rows3r, repeat=n):
                if any(abs(c) == 3 for row in m for c in row):
                    yield [list(x) for x in m]
        for m in itertools.product(rows1, repeat=4):
            yield [list(x) for x in m]
    # systems without unit coefficients (no exact elimination: dark / grey shadow cases)
    nounit = [(a_, b_, k_) for a_ in (-3, -2, 2, 3) for b_ in (-3, -2, 2, 3) for k_ in (tier_param(tier, (-1, 0, 1), (-2, -1, 0, 1, 2)))]
    for m in itertools.product(nounit, repeat=2):
        yield [list(x) for x in m]
    for m in itertools.product(nounit, repeat=3):
        yield [list(x) for x in m]
    rows3 = list(itertools.product(range(-1, 2), repeat=4))
    for n in range(1, tier_param(tier, 2, 3) + 1):
        for m in itertools.product(rows3, repeat=n):
            if all(all(c == 0 for c in row[:-1]) for row in m):
                continue
            yield [list(x) for x in m]


def hol_systems(tier):
    """Second family: systems  a*x + b*y  op  k  given (i) as HOL terms to SimplexMacro / StrictSimplexMacro (op also < and >),
    (ii) to simplex_strict.Simplex, (iii) inside the box -2..2 to Simplex + branch_and_bound and IntegerSimplexMacro."""
    cf = [(a_, b_) for a_ in (-1, 0, 1) for b_ in (-1, 0, 1) if (a_, b_) != (0, 0)]
    cf2 = cf + [(2, 1), (1, -2), (2, -2), (-2, 3), (2, 0), (3, 0), (0, 2)]
    ops = ('<=', '>=', '<', '>')
    rowsA = [[a_, b_, op, k_] for (a_, b_) in tier_param(tier, cf, cf2) for op in ops for k_ in (-1, 0, 1)]
    for m in itertools.product(rowsA, repeat=2):
        yield ['R', [list(x) for x in m]]
    rowsB = [[a_, b_, op, k_] for (a_, b_) in cf for op in tier_param(tier, ('<=', '>', '>='), ops) for k_ in (0, 1)]
    for m in itertools.product(rowsB, repeat=3):
        if m[0] <= m[1] <= m[2]:        # unordered triples (the procedures see the rows in this one order)
            yield ['R', [list(x) for x in m]]
    rowsI = [[a_, b_, op, k_] for (a_, b_) in cf2 for op in ('<=', '>=') for k_ in tier_param(tier, (0, 1), (-1, 0, 1, 2))]
    for n in (1, 2):
        for m in itertools.product(rowsI, repeat=n):
            yield ['I', [list(x) for x in m]]
    if tier != 'quick':
        rowsI3 = [[a_, b_, op, k_] for (a_, b_) in ((2, 1), (1, -2), (2, -2), (-2, 3), (2, 0), (3, 2), (1, 1)) for op in ('<=', '>=') for k_ in (0, 1)]
        for m in itertools.product(rowsI3, repeat=3):
            yield ['I', [list(x) for x in m]]


def cases(tier):
    for m in systems(tier):
        yield m
    for m in hol_systems(tier):
        yield m


def setup(tier):
    from prover import omega  # noqa (loads theory int)
    from prover import simplex, simplex_strict  # noqa
    from logic import basic
    basic.load_theory('real')
    _S['box'] = bounds(tier)['box']


_S = {}


def viol(kind, case, what):
    return Outcome(kind.upper(), violation={'signature': kind + ':' + repr(case), 'what': what})


def int_solution(m, B):
    n = len(m[0]) - 1
    rng = range(-B, B + 1)
    for vals in itertools.product(rng, repeat=n):
        if all(sum(c * x for c, x in zip(row, vals)) + row[-1] >= 0 for row in m):
            return vals
    return None


def fm_feasible(rows):
    rows = [tuple(Fraction(c) for c in r) for r in rows]
    n = len(rows[0]) - 1
    for i in range(n):
        pos = [r for r in rows if r[i] > 0]
        neg = [r for r in rows if r[i] < 0]
        new = [r for r in rows if r[i] == 0]
        for p in pos:
            for q in neg:
                new.append(tuple(a * (-q[i]) + b * p[i] for a, b in zip(p, q)))
        rows = list(set(new))
        if not rows:
            return True
    return all(r[-1] >= 0 for r in rows)


def judge_omega(m):
    from prover import omega
    try:
        res, val = omega.solve_matrix([list(r) for r in m])
    except RecursionError:
        return 'exc', None
    except Exception as e:
        return 'exc', None
    if res == 'SAT':
        n = len(m[0]) - 1
        vals = [val.get(i, 0) for i in range(n)]
        if not all(isinstance(x, int) for x in vals):
            return 'bad', viol('omega-sat-nonint', ['omega', m], "omega answers SAT on %r with the non-integer assignment %r" % (m, val))
        for row in m:
            if sum(c * x for c, x in zip(row, vals)) + row[-1] < 0:
                return 'bad', viol('omega-sat-wrong', ['omega', m], "omega answers SAT on %r with %r, which violates the row %r" % (m, val, row))
        return 'sat', None
    if res == 'UNSAT':
        sol = int_solution(m, _S['box'])
        if sol is not None:
            return 'bad', viol('omega-unsat-wrong', ['omega', m], "omega answers UNSAT (contradiction) on %r, but %r is an integer solution" % (m, sol))
        return 'unsat', None
    return 'noconcl', None


def judge_simplex(m, flip):
    from prover import simplex
    from prover.simplex import Simplex, Jar, LessEq, GreaterEq, UNSATException, AssertLowerException, AssertUpperException
    n = len(m[0]) - 1
    names = ['x%d' % i for i in range(n)]
    s = Simplex()
    rows = []
    try:
        for row in m:
            jars = [Jar(c, names[i]) for i, c in enumerate(row[:-1]) if c != 0]
            if not jars:
                return 'skip', None
            if flip:
                # -sum <= k
                s.add_ineq(LessEq([Jar(-j.coeff, j.var) for j in jars], row[-1]))
            else:
                s.add_ineq(GreaterEq(jars, -row[-1]))
        try:
            s.handle_assertion()
            status = 'SAT'
        except (UNSATException, AssertLowerException, AssertUpperException):
            status = 'UNSAT'
    except RecursionError:
        return 'exc', None
    except Exception as e:
        return 'exc', None
    if status == 'SAT':
        val = [Fraction(s.mapping.get(v, 0)) for v in names]
        for row in m:
            if sum(c * x for c, x in zip(row[:-1], val)) + row[-1] < 0:
                return 'bad', viol('simplex-sat-wrong', ['simplex', m, flip], 'simplex answers SAT on %r with %r, which violates the row %r' % (
                    m, dict(zip(names, map(str, val))), row))
        return 'sat', None
    if fm_feasible(m):
        return 'bad', viol('simplex-unsat-wrong', ['simplex', m, flip], 'simplex answers UNSAT on %r, which has a rational solution' % (m,))
    return 'unsat', None


def judge_omega_hol(m):
    from prover import omega
    from kernel import term, theory, report
    from kernel.term import Var
    from kernel.type import IntType
    n = len(m[0]) - 1
    vs = [Var('x', IntType), Var('y', IntType), Var('z', IntType)][:n]
    try:
        ineqs = [omega.factoid_to_term(vs, omega.Factoid(r)) for r in m]
        hol = omega.OmegaHOL(ineqs)
        res = hol.solve()
    except Exception:
        return 'exc', None
    if isinstance(res, dict) or res is None:
        return 'sat', None
    try:
        rpt = report.ProofReport()
        th = theory.check_proof(res.export(), rpt)
    except Exception as e:
        return 'bad', viol('omega-proof-rejected', ['omegahol', m], 'contradiction proof of %r rejected by the checker: %s' % (m, e))
    if th.prop != term.false or rpt.gaps:
        return 'bad', viol('omega-proof-concl', ['omegahol', m], 'contradiction proof of %r concludes %s (gaps %s)' % (m, th.prop, rpt.gaps))
    extra = [h for h in th.hyps if h not in ineqs]
    if extra:
        # the statement: concludes falsity from exactly the given constraints (up to their normal form)
        try:
            from data import integer
            norm = [integer.omega_form_conv().get_proof_term(t).rhs for t in ineqs]
        except Exception:
            norm = []
        extra = [h for h in extra if h not in norm]
        if extra:
            return 'bad', viol('omega-proof-hyps', ['omegahol', m], 'contradiction proof of %r uses hypotheses %s that are not among the constraints' % (
                m, [str(h) for h in extra]))
    if int_solution(m, _S['box']) is not None:
        return 'bad', viol('omega-proof-of-sat', ['omegahol', m], 'kernel-checked contradiction from the satisfiable system %r' % (m,))
    return 'unsat', None


# ---------------------------------------------------------------------------------------------------------------------
# second family: strict simplex, branch-and-bound, the HOL wrappers / macros

_OPF = {'<=': lambda l, r: l <= r, '>=': lambda l, r: l >= r, '<': lambda l, r: l < r, '>': lambda l, r: l > r}
IBOX = 2


def strict_fm_feasible(rows):
    """rows: (a, b, op, k) over the rationals.  Exact Fourier-Motzkin with strictness flags."""
    cur = []
    for a_, b_, op, k_ in rows:       # normalise to  c.x + k (>|>=) 0
        if op in ('<=', '<'):
            cur.append((Fraction(-a_), Fraction(-b_), Fraction(k_), op == '<'))
        else:
            cur.append((Fraction(a_), Fraction(b_), Fraction(-k_), op == '>'))
    for i in range(2):
        pos = [r for r in cur if r[i] > 0]
        neg = [r for r in cur if r[i] < 0]
        new = [r for r in cur if r[i] == 0]
        for p in pos:
            for q in neg:
                new.append(tuple(x * (-q[i]) + y * p[i] for x, y in zip(p[:3], q[:3])) + (p[3] or q[3],))
        cur = list(set(new))
    return all((r[2] > 0) if r[3] else (r[2] >= 0) for r in cur)


def int_box_solution(rows):
    rng = range(-IBOX, IBOX + 1)
    for x in rng:
        for y in rng:
            if all(_OPF[op](a_ * x + b_ * y, k_) for a_, b_, op, k_ in rows):
                return (x, y)
    return None


def hol_terms(rows, ty):
    from kernel.term import Var, Int, Real, less_eq, less, greater_eq, greater
    from kernel.type import IntType, RealType
    T = IntType if ty == 'int' else RealType
    num = Int if ty == 'int' else Real
    mk = {'<=': less_eq, '<': less, '>=': greater_eq, '>': greater}
    x, y = Var('x', T), Var('y', T)
    out = []
    for a_, b_, op, k_ in rows:
        parts = [num(c) * v for c, v in ((a_, x), (b_, y)) if c != 0]
        lhs = parts[0] if len(parts) == 1 else parts[0] + parts[1]
        out.append(mk[op](T)(lhs, num(k_)))
    return out


def _strip_one(t):
    if t.is_comb():
        if t.is_times() and t.arg1.is_number() and t.arg1.dest_number() == 1:
            return _strip_one(t.arg)
        return _strip_one(t.fun)(_strip_one(t.arg))
    return t


def judge_proof(tag, case, rows, tms, pt, feasible_witness):
    """pt: ProofTerm returned as a contradiction proof.  Checked by the kernel; must conclude false from given constraints only."""
    from kernel import term, theory, report
    try:
        rpt = report.ProofReport()
        th = theory.check_proof(pt.export(), rpt)
    except Exception as e:
        return viol(tag + '-proof-rejected', case, '%s: contradiction proof of %s rejected by the checker: %s: %s' % (
            tag, [str(t) for t in tms], type(e).__name__, str(e)[:200]))
    if th.prop != term.false or rpt.gaps:
        return viol(tag + '-proof-concl', case, '%s: proof for %s concludes %s (gaps %s)' % (tag, [str(t) for t in tms], th.prop, rpt.gaps))
    given = set(tms) | {_strip_one(t) for t in tms}      # the macros state a unit coefficient 1 * v as v (real_mul_lid); same constraint
    extra = [h for h in th.hyps if h not in given and _strip_one(h) not in given]
    if extra:
        return viol(tag + '-proof-hyps', case, '%s: contradiction proof for %s rests on hypotheses that are not among the given constraints: %s' % (
            tag, [str(t) for t in tms], [str(h) for h in extra]))
    if feasible_witness is not None:
        return viol(tag + '-proof-of-sat', case, '%s: kernel-checked contradiction from the satisfiable system %s (%s)' % (
            tag, [str(t) for t in tms], feasible_witness))
    return None


def _quiet(fn):
    import io, contextlib
    with contextlib.redirect_stdout(io.StringIO()):
        return fn()


def judge_real_macros(case, rows):
    from prover import simplex, simplex_strict
    from kernel.proofterm import ProofTerm
    tms = hol_terms(rows, 'real')
    feas = strict_fm_feasible(rows)
    strict = any(op in ('<', '>') for _, _, op, _ in rows)
    res = []
    for tag, M in (('simplex_macro', simplex.SimplexMacro), ('strict_simplex_macro', simplex_strict.StrictSimplexMacro)):
        if strict and tag == 'simplex_macro':
            continue
        try:
            r = _quiet(lambda: M().get_proof_term(args=list(tms)))
        except (RecursionError, Exception):
            res.append(tag + ':exc')
            continue
        if isinstance(r, ProofTerm):
            out = judge_proof(tag, case, rows, tms, r, 'Fourier-Motzkin: feasible' if feas else None)
            if out is not None:
                return res, out
            res.append(tag + ':unsat')
        else:
            if not feas:
                return res, viol(tag + '-sat-wrong', case, '%s returns the assignment %s for the infeasible system %s' % (tag, r, [str(t) for t in tms]))
            res.append(tag + ':sat')
    return res, None


def judge_strict_raw(case, rows):
    """simplex_strict.Simplex on the bare tableau; a SAT mapping x -> (c, k) stands for c + k*delta and must satisfy every row for
    some delta > 0 (tried: 2^-1 .. 2^-40, exact rationals)."""
    from prover import simplex_strict as ss
    s = ss.Simplex()
    try:
        for a_, b_, op, k_ in rows:
            jars = [ss.Jar(c, v) for c, v in ((a_, 'x'), (b_, 'y')) if c != 0]
            if op in ('<=', '<'):
                s.add_ineq(ss.LessEq(jars, ss.Pair(k_, -1 if op == '<' else 0)))
            else:
                s.add_ineq(ss.GreaterEq(jars, ss.Pair(k_, 1 if op == '>' else 0)))
        try:
            _quiet(s.handle_assertion)
            status = 'SAT'
        except (ss.UNSATException, ss.AssertLowerException, ss.AssertUpperException):
            status = 'UNSAT'
    except (RecursionError, Exception):
        return 'exc', None
    feas = strict_fm_feasible(rows)
    if status == 'UNSAT':
        if feas:
            return 'bad', viol('strict-unsat-wrong', case, 'simplex_strict.Simplex answers UNSAT on the feasible system %r' % (rows,))
        return 'unsat', None
    if not feas:
        return 'bad', viol('strict-sat-wrong', case, 'simplex_strict.Simplex answers SAT (%s) on the infeasible system %r' % (s.mapping, rows))
    def val(v, d):
        p = s.mapping.get(v, ss.Pair(0, 0))
        if not isinstance(p, ss.Pair):
            return Fraction(p)
        return Fraction(p.x) + Fraction(p.y) * d
    ok = False
    for e in (1, 2, 4, 8, 16, 40):
        d = Fraction(1, 2 ** e)
        x, y = val('x', d), val('y', d)
        if all(_OPF[op](a_ * x + b_ * y, k_) for a_, b_, op, k_ in rows):
            ok = True
            break
    if not ok:
        return 'bad', viol('strict-witness-wrong', case, 'simplex_strict.Simplex answers SAT on %r with x=%s y=%s, which satisfies the rows for no delta in 2^-1..2^-40' % (
            rows, s.mapping.get('x'), s.mapping.get('y')))
    return 'sat', None


class _NodeCap(BaseException):
    pass


def judge_bnb(case, rows):
    """Simplex + branch_and_bound on rows plus the box -IBOX <= x, y <= IBOX (so branching terminates and the box search is exact).
    branch_and_bound swallows every exception: a persistent node cap (raised from IntSimplexTree.__init__) empties its queue."""
    from prover import simplex
    full = [list(r) for r in rows] + [[1, 0, '>=', -IBOX], [1, 0, '<=', IBOX], [0, 1, '>=', -IBOX], [0, 1, '<=', IBOX]]
    cap = [0]
    orig = simplex.IntSimplexTree.__init__

    def counted(self, *a, **kw):
        cap[0] += 1
        if cap[0] > 400:
            raise _NodeCap()
        orig(self, *a, **kw)
    simplex.IntSimplexTree.__init__ = counted
    try:
        s = simplex.Simplex()
        for a_, b_, op, k_ in full:
            jars = [simplex.Jar(c, v) for c, v in ((a_, 'x'), (b_, 'y')) if c != 0]
            s.add_ineq((simplex.LessEq if op == '<=' else simplex.GreaterEq)(jars, k_))
        r = _quiet(lambda: simplex.branch_and_bound(s, [], []))
    except _NodeCap:
        return 'cap', None
    except (RecursionError, Exception):
        return 'exc', None
    finally:
        simplex.IntSimplexTree.__init__ = orig
    if cap[0] > 400:
        return 'cap', None
    sol = int_box_solution(full)
    if isinstance(r, dict):
        x, y = Fraction(r.get('x', 0)), Fraction(r.get('y', 0))
        if x.denominator != 1 or y.denominator != 1 or not all(_OPF[op](a_ * x + b_ * y, k_) for a_, b_, op, k_ in full):
            return 'bad', viol('bnb-sat-wrong', case, 'branch_and_bound returns x=%s y=%s for %r, which is not an integer solution' % (x, y, full))
        return 'sat', None
    if sol is not None:
        return 'bad', viol('bnb-unsat-wrong', case, 'branch_and_bound finds no integer solution of %r, but %r is one' % (full, sol))
    return 'unsat', None


def judge_int_macro(case, rows):
    from prover import simplex
    from kernel.proofterm import ProofTerm
    full = [list(r) for r in rows] + [[1, 0, '>=', -IBOX], [1, 0, '<=', IBOX], [0, 1, '>=', -IBOX], [0, 1, '<=', IBOX]]
    tms = hol_terms(full, 'int')
    cap = [0]
    orig = simplex.IntSimplexTree.__init__

    def counted(self, *a, **kw):
        cap[0] += 1
        if cap[0] > 400:
            raise _NodeCap()
        orig(self, *a, **kw)
    simplex.IntSimplexTree.__init__ = counted
    try:
        r = _quiet(lambda: simplex.IntegerSimplexMacro().get_proof_term(args=list(tms)))
    except _NodeCap:
        return 'cap', None
    except (RecursionError, Exception):
        return 'exc', None
    finally:
        simplex.IntSimplexTree.__init__ = orig
    if cap[0] > 400:
        return 'cap', None
    sol = int_box_solution(full)
    if isinstance(r, ProofTerm):
        out = judge_proof('integer_simplex', case, full, tms, r, None if sol is None else 'integer solution %r' % (sol,))
        return ('bad', out) if out is not None else ('unsat', None)
    if sol is None:
        return 'bad', viol('integer_simplex-sat-wrong', case, 'integer_simplex returns %s for %s, which has no integer solution' % (r, [str(t) for t in tms]))
    return 'sat', None


def run_hol(case):
    kind, rows = case
    rows = [tuple(r) for r in rows]
    res = []
    if kind == 'R':
        r1, out = judge_real_macros(case, rows)
        if out is not None:
            return out
        res += r1
        st, out = judge_strict_raw(case, rows)
        if out is not None:
            return out
        res.append('strict:' + st)
    else:
        st, out = judge_bnb(case, rows)
        if out is not None:
            return out
        res.append('bnb:' + st)
        st, out = judge_int_macro(case, rows)
        if out is not None:
            return out
        res.append('intmacro:' + st)
    decided = any(x.endswith(':sat') or x.endswith(':unsat') for x in res)
    return Outcome(kind + '/' + ','.join(res), decided, obs=','.join(res))


def run(m):
    if m and m[0] in ('R', 'I'):
        return run_hol(m)
    res = []
    for name, fn in (('omega', lambda: judge_omega(m)), ('simplex', lambda: judge_simplex(m, False)),
                     ('simplexL', lambda: judge_simplex(m, True))):
        st, out = fn()
        if out is not None:
            return out
        res.append(st)
    if len(m) <= 2 and len(m[0]) == 3:
        st, out = judge_omega_hol(m)
        if out is not None:
            return out
        res.append('hol-' + st)
    decided = any(x in ('sat', 'unsat') for x in res[:3])
    cls = 'omega-%s/simplex-%s' % (res[0], res[1])
    return Outcome(cls, decided, obs=','.join(res))
