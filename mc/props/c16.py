"""C16 — Omega test and simplex agree with ground truth and return genuine witnesses.  E1."""
import itertools
from fractions import Fraction

from mc.engine import Outcome, tier_param

ID = 'C16'
LEVEL = 'exploration'
WALL_S = 20.0
LINE_BUDGET = 30000000
RULE = ('all systems 0 <= c1*x + c2*y (+ c3*z) + k with coefficients and constants in the tier range and up to the tier number of rows '
        '(zero rows, duplicates, equalities as pairs, unbounded directions included), each given to omega.solve_matrix and (as >=/<= '
        'rows, both orientations) to simplex.Simplex; contradictions of 2-row systems also through OmegaHOL.solve with the proof '
        'checked by the kernel. distinct_nontrivial = distinct systems on which a verdict was returned and judged.')
ASSUMPTIONS = ['oracle: direct evaluation of witnesses; exhaustive integer search in the box [-B,B]^n (a solution found there is '
               'definitive); exact Fourier-Motzkin elimination over the rationals for simplex UNSAT',
               'a wrong contradiction whose only integer solutions lie outside the box would be missed']


def bounds(tier):
    return tier_param(tier,
                      {'2 variables': 'all systems of <=2 rows with entries in -2..2; 3 rows: two rows in -2..2, third in -1..1',
                       '3 variables': '<=2 rows with entries in -1..1', 'no unit coefficients': '2-3 rows, coefficients in {-3,-2,2,3}, constants -1..1', 'box': 8},
                      {'2 variables': 'all systems of <=3 rows with entries in -2..2; <=2 rows in -3..3; 4 rows in -1..1',
                       '3 variables': '<=3 rows with entries in -1..1', 'no unit coefficients': '2-3 rows, coefficients in {-3,-2,2,3}, constants -2..2', 'box': 10})


def systems(tier):
    rows2 = list(itertools.product(range(-2, 3), repeat=3))
    rows1 = list(itertools.product(range(-1, 2), repeat=3))
    for n in (1, 2):
        for m in itertools.product(rows2, repeat=n):
            yield [list(x) for x in m]
    if tier == 'quick':
        for a_ in rows2:
            for b_ in rows2:
                for c_ in rows1:
                    yield [list(a_), list(b_), list(c_)]
    else:
        for m in itertools.product(rows2, repeat=3):
            yield [list(x) for x in m]
        rows3r = list(itertools.product(range(-3, 4), repeat=3))
        for n in (1, 2):
            for m in itertools.product(rows3r, repeat=n):
                if any(abs(c) == 3 for row in m for c in row):
                    yield [list(x) for x in m]
        for m in itertools.product(rows1, repeat=4):
            yield [list(x) for x in m]
    # systems without unit coefficients (no exact elimination: dark / grey shadow cases)
    nounit = [(a_, b_, k_) for a_ in (-3, -2, 2, 3) for b_ in (-3, -2, 2, 3) for k_ in (tier_param(tier, (-1, 0, 1), (-2, -1, 0, 1, 2)))]
    for m in itertools.product(nounit, repeat=2):
        yield [list(x) for x in m]
    for m in itertools.product(nounit, repeat=3):
        yield [list(x) for x in m]
    rows3 = list(itertools.product(range(-1, 2), repeat=4))
    for n in range(1, tier_param(tier, 2, 3) + 1):
        for m in itertools.product(rows3, repeat=n):
            if all(all(c == 0 for c in row[:-1]) for row in m):
                continue
            yield [list(x) for x in m]


def cases(tier):
    for m in systems(tier):
        yield m


def setup(tier):
    from prover import omega  # noqa (loads theory int)
    from prover import simplex  # noqa
    _S['box'] = bounds(tier)['box']


_S = {}


def viol(kind, case, what):
    return Outcome(kind.upper(), violation={'signature': kind + ':' + repr(case), 'what': what})


def int_solution(m, B):
    n = len(m[0]) - 1
    rng = range(-B, B + 1)
    for vals in itertools.product(rng, repeat=n):
        if all(sum(c * x for c, x in zip(row, vals)) + row[-1] >= 0 for row in m):
            return vals
    return None


def fm_feasible(rows):
    rows = [tuple(Fraction(c) for c in r) for r in rows]
    n = len(rows[0]) - 1
    for i in range(n):
        pos = [r for r in rows if r[i] > 0]
        neg = [r for r in rows if r[i] < 0]
        new = [r for r in rows if r[i] == 0]
        for p in pos:
            for q in neg:
                new.append(tuple(a * (-q[i]) + b * p[i] for a, b in zip(p, q)))
        rows = list(set(new))
        if not rows:
            return True
    return all(r[-1] >= 0 for r in rows)


def judge_omega(m):
    from prover import omega
    try:
        res, val = omega.solve_matrix([list(r) for r in m])
    except RecursionError:
        return 'exc', None
    except Exception as e:
        return 'exc', None
    if res == 'SAT':
        n = len(m[0]) - 1
        vals = [val.get(i, 0) for i in range(n)]
        if not all(isinstance(x, int) for x in vals):
            return 'bad', viol('omega-sat-nonint', ['omega', m], "omega answers SAT on %r with the non-integer assignment %r" % (m, val))
        for row in m:
            if sum(c * x for c, x in zip(row, vals)) + row[-1] < 0:
                return 'bad', viol('omega-sat-wrong', ['omega', m], "omega answers SAT on %r with %r, which violates the row %r" % (m, val, row))
        return 'sat', None
    if res == 'UNSAT':
        sol = int_solution(m, _S['box'])
        if sol is not None:
            return 'bad', viol('omega-unsat-wrong', ['omega', m], "omega answers UNSAT (contradiction) on %r, but %r is an integer solution" % (m, sol))
        return 'unsat', None
    return 'noconcl', None


def judge_simplex(m, flip):
    from prover import simplex
    from prover.simplex import Simplex, Jar, LessEq, GreaterEq, UNSATException, AssertLowerException, AssertUpperException
    n = len(m[0]) - 1
    names = ['x%d' % i for i in range(n)]
    s = Simplex()
    rows = []
    try:
        for row in m:
            jars = [Jar(c, names[i]) for i, c in enumerate(row[:-1]) if c != 0]
            if not jars:
                return 'skip', None
            if flip:
                # -sum <= k
                s.add_ineq(LessEq([Jar(-j.coeff, j.var) for j in jars], row[-1]))
            else:
                s.add_ineq(GreaterEq(jars, -row[-1]))
        try:
            s.handle_assertion()
            status = 'SAT'
        except (UNSATException, AssertLowerException, AssertUpperException):
            status = 'UNSAT'
    except RecursionError:
        return 'exc', None
    except Exception as e:
        return 'exc', None
    if status == 'SAT':
        val = [Fraction(s.mapping.get(v, 0)) for v in names]
        for row in m:
            if sum(c * x for c, x in zip(row[:-1], val)) + row[-1] < 0:
                return 'bad', viol('simplex-sat-wrong', ['simplex', m, flip], 'simplex answers SAT on %r with %r, which violates the row %r' % (
                    m, dict(zip(names, map(str, val))), row))
        return 'sat', None
    if fm_feasible(m):
        return 'bad', viol('simplex-unsat-wrong', ['simplex', m, flip], 'simplex answers UNSAT on %r, which has a rational solution' % (m,))
    return 'unsat', None


def judge_omega_hol(m):
    from prover import omega
    from kernel import term, theory, report
    from kernel.term import Var
    from kernel.type import IntType
    n = len(m[0]) - 1
    vs = [Var('x', IntType), Var('y', IntType), Var('z', IntType)][:n]
    try:
        ineqs = [omega.factoid_to_term(vs, omega.Factoid(r)) for r in m]
        hol = omega.OmegaHOL(ineqs)
        res = hol.solve()
    except Exception:
        return 'exc', None
    if isinstance(res, dict) or res is None:
        return 'sat', None
    try:
        rpt = report.ProofReport()
        th = theory.check_proof(res.export(), rpt)
    except Exception as e:
        return 'bad', viol('omega-proof-rejected', ['omegahol', m], 'contradiction proof of %r rejected by the checker: %s' % (m, e))
    if th.prop != term.false or rpt.gaps:
        return 'bad', viol('omega-proof-concl', ['omegahol', m], 'contradiction proof of %r concludes %s (gaps %s)' % (m, th.prop, rpt.gaps))
    extra = [h for h in th.hyps if h not in ineqs]
    if extra:
        # the statement: concludes falsity from exactly the given constraints (up to their normal form)
        try:
            from data import integer
            norm = [integer.omega_form_conv().get_proof_term(t).rhs for t in ineqs]
        except Exception:
            norm = []
        extra = [h for h in extra if h not in norm]
        if extra:
            return 'bad', viol('omega-proof-hyps', ['omegahol', m], 'contradiction proof of %r uses hypotheses %s that are not among the constraints' % (
                m, [str(h) for h in extra]))
    if int_solution(m, _S['box']) is not None:
        return 'bad', viol('omega-proof-of-sat', ['omegahol', m], 'kernel-checked contradiction from the satisfiable system %r' % (m,))
    return 'unsat', None


def run(m):
    res = []
    for name, fn in (('omega', lambda: judge_omega(m)), ('simplex', lambda: judge_simplex(m, False)),
                     ('simplexL', lambda: judge_simplex(m, True))):
        st, out = fn()
        if out is not None:
            return out
        res.append(st)
    if len(m) <= 2 and len(m[0]) == 3:
        st, out = judge_omega_hol(m)
        if out is not None:
            return out
        res.append('hol-' + st)
    decided = any(x in ('sat', 'unsat') for x in res[:3])
    cls = 'omega-%s/simplex-%s' % (res[0], res[1])
    return Outcome(cls, decided, obs=','.join(res))
