"""C20 — program evaluation and VC generation are sound with respect to execution.  E1 over programs x states."""
import itertools

from mc import ref, numeric
from mc.engine import Outcome, tier_param

ID = 'C20'
LEVEL = 'exploration'
WALL_S = 30.0
LINE_BUDGET = 60000000
RULE = ('all programs over skip / v := e / ; / if / while (nesting depth<=2, bodies from the atomic commands) with expressions, '
        'conditions, invariants and pre/postconditions from small grammars that contain every bracketing-sensitive shape; every '
        'initial state in {-2..3}^2. (1) loop-free: s |= wp(c,Q) <=> exec(c,s) |= Q; (2) loops: all VCs valid (z3 on an independent '
        'encoding) and a terminating run from a state satisfying P ends outside Q => violation; (3) every VC string is re-parsed '
        'and must mean the same as the computed HOL condition on every grid state; (4) imp.eval_Sem on nat=>nat states: proof '
        'accepted by the kernel and the proved final state equals the interpreter\'s. distinct_nontrivial = distinct (program, '
        'spec) combinations judged.')
ASSUMPTIONS = ['own interpreter and evaluators (mc/props/c20.py, mc/numeric.py)',
               'validity of VCs of loop programs is decided by z3 (python API) on my own encoding; unknown => undecided']

X, Y = ('var', 'x'), ('var', 'y')


def n_(k):
    return ('num', k)


def op(o, a, b):
    return ('op', o, a, b)


def neg(a):
    return ('neg', a)


EXPRS = [X, Y, n_(0), n_(1), op('+', X, n_(1)), op('-', X, n_(1)), op('+', X, Y), op('-', X, Y), op('-', Y, X), op('*', X, n_(2)),
         op('*', X, Y), op('-', n_(2), X),
         # unary minus in every operand position (the condition parser has no precedence: -a + b must not be printed for (-a) + b)
         neg(X), op('+', neg(X), Y), op('-', neg(X), Y), op('*', neg(X), Y), neg(op('+', X, Y)), op('-', X, neg(Y)), neg(op('*', X, Y))]
EXPRS2 = [op('-', op('-', X, Y), n_(1)), op('-', X, op('-', Y, n_(1))), op('+', op('*', X, Y), n_(1)), op('*', op('+', X, n_(1)), Y),
          op('*', X, op('+', Y, n_(1))), op('-', X, op('*', Y, n_(2))), op('+', X, op('-', Y, X)), op('-', op('+', X, Y), X)]


def cmp_(o, a, b):
    return ('cmp', o, a, b)


CONDS = [cmp_('<', X, n_(2)), cmp_('!=', X, Y), cmp_('<=', X, Y), ('true',), cmp_('==', X, n_(0)), cmp_('>', X, n_(0)), cmp_('>=', X, Y)]
ASSERTS = [('true',), cmp_('==', X, n_(0)), cmp_('<=', X, Y), cmp_('==', op('+', X, Y), n_(2)),
           cmp_('==', op('-', X, op('-', Y, n_(1))), n_(1)), cmp_('==', op('-', op('-', X, Y), n_(1)), n_(0)),
           cmp_('==', op('+', op('*', X, Y), n_(1)), n_(1)), ('not', cmp_('<=', X, Y)),
           ('and', cmp_('<=', X, Y), cmp_('<=', Y, n_(2))), ('imp', cmp_('==', X, n_(1)), cmp_('==', Y, n_(1))),
           cmp_('==', op('*', op('+', X, n_(1)), n_(2)), Y), cmp_('<', op('-', X, op('*', Y, n_(2))), n_(1)), cmp_('>', X, Y), cmp_('>=', op('+', X, n_(1)), Y),
           cmp_('==', op('+', neg(X), Y), n_(1)), cmp_('==', Y, op('-', neg(n_(1)), X))]
PRES = [('true',), cmp_('==', X, n_(0)), cmp_('<=', X, Y), cmp_('==', Y, n_(1))]


def bounds(tier):
    return tier_param(tier, {'exprs': len(EXPRS), 'grid': '-2..3', 'shapes': 'atomic, a;b, if, while, (a; if|while), (if|while; a) with small bodies'},
                      {'exprs': len(EXPRS) + len(EXPRS2), 'grid': '-2..3', 'shapes': 'quick shapes + nested if/while in bodies, 3-command sequences'})


def atomic(tier):
    es = EXPRS + (EXPRS2 if tier == 'thorough' else EXPRS2[:3])
    return [('skip',)] + [('asg', vv, e) for vv in ('x', 'y') for e in es]


def small_atomic():
    return [('skip',), ('asg', 'x', op('+', X, n_(1))), ('asg', 'x', op('-', X, n_(1))), ('asg', 'y', op('-', Y, X)), ('asg', 'x', n_(0)),
            ('asg', 'y', op('+', X, Y)), ('asg', 'x', op('-', X, op('-', Y, n_(1)))), ('asg', 'y', op('*', X, n_(2))), ('asg', 'x', neg(X))]


def programs(tier):
    """yields (program, has_loop)"""
    L0 = atomic(tier)
    S0 = small_atomic()
    for a in L0:
        yield a, False
    for a in L0:
        for b in (L0 if tier == 'thorough' else S0):
            yield ('seq', a, b), False
    ifs = [('if', b, c1, c2) for b in CONDS for c1 in S0 for c2 in S0]
    whiles = [('while', b, inv, c) for b in CONDS for inv in ASSERTS for c in S0]
    for c in ifs:
        yield c, False
    for c in whiles:
        yield c, True
    for a in S0[1:]:
        for c in ifs[::3] if tier == 'quick' else ifs:
            yield ('seq', a, c), False
            yield ('seq', c, a), False
        for c in whiles[::3] if tier == 'quick' else whiles:
            yield ('seq', a, c), True
            yield ('seq', c, a), True
    if tier == 'thorough':
        for b in CONDS:
            for c1 in ifs[::7]:
                yield ('if', b, c1, ('skip',)), False
            for w in whiles[::11]:
                yield ('if', b, w, ('skip',)), True
        for b in CONDS[:3]:
            for inv in ASSERTS[:4]:
                for c1 in ifs[::9]:
                    yield ('while', b, inv, c1), True


def cases(tier):
    for prog, has_loop in programs(tier):
        yield ['prog', prog, has_loop]
    for c in sem_cases(tier):
        yield c


# ------------------------------------------------------------------------------ my interpreter

def ev_e(e, s):
    k = e[0]
    if k == 'var':
        return s[e[1]]
    if k == 'num':
        return e[1]
    if k == 'neg':
        return -ev_e(e[1], s)
    a, b = ev_e(e[2], s), ev_e(e[3], s)
    return {'+': a + b, '-': a - b, '*': a * b}[e[1]]


def ev_c(c, s):
    k = c[0]
    if k == 'true':
        return True
    if k == 'cmp':
        a, b = ev_e(c[2], s), ev_e(c[3], s)
        return {'==': a == b, '!=': a != b, '<=': a <= b, '<': a < b, '>': a > b, '>=': a >= b}[c[1]]
    if k == 'not':
        return not ev_c(c[1], s)
    if k == 'and':
        return ev_c(c[1], s) and ev_c(c[2], s)
    if k == 'imp':
        return (not ev_c(c[1], s)) or ev_c(c[2], s)
    raise ValueError(c)


class NoTermination(Exception):
    pass


def execute(p, s, fuel):
    k = p[0]
    if k == 'skip':
        return s
    if k == 'asg':
        s2 = dict(s)
        s2[p[1]] = ev_e(p[2], s)
        return s2
    if k == 'seq':
        return execute(p[2], execute(p[1], s, fuel), fuel)
    if k == 'if':
        return execute(p[2] if ev_c(p[1], s) else p[3], s, fuel)
    if k == 'while':
        while ev_c(p[1], s):
            fuel[0] -= 1
            if fuel[0] < 0:
                raise NoTermination()
            s = execute(p[3], s, fuel)
        return s
    raise ValueError(p)


# ------------------------------------------------------------------------------ building holpy objects

def h_e(e):
    from imperative import expr
    k = e[0]
    if k == 'var':
        return expr.Var(e[1])
    if k == 'num':
        return expr.Const(e[1])
    if k == 'neg':
        return expr.Op('-', h_e(e[1]))
    return expr.Op(e[1], h_e(e[2]), h_e(e[3]))


def h_c(c):
    from imperative import expr
    k = c[0]
    if k == 'true':
        return expr.Const(True)
    if k == 'cmp':
        return expr.Op(c[1], h_e(c[2]), h_e(c[3]))
    if k == 'not':
        return expr.Op('~', h_c(c[1]))
    if k == 'and':
        return expr.Op('&', h_c(c[1]), h_c(c[2]))
    if k == 'imp':
        return expr.Op('-->', h_c(c[1]), h_c(c[2]))
    raise ValueError(c)


def h_p(p):
    from imperative import com
    k = p[0]
    if k == 'skip':
        return com.Skip()
    if k == 'asg':
        return com.Assign(p[1], h_e(p[2]))
    if k == 'seq':
        return com.Seq(h_p(p[1]), h_p(p[2]))
    if k == 'if':
        return com.Cond(h_c(p[1]), h_p(p[2]), h_p(p[3]))
    if k == 'while':
        return com.While(h_c(p[1]), h_c(p[2]), h_p(p[3]))
    raise ValueError(p)


def eval_hexpr(e, s):
    """independent evaluator of imperative.expr objects (reads public fields)"""
    nm = type(e).__name__
    if nm == 'Var':
        return s[e.name]
    if nm == 'Const':
        return e.val
    if nm == 'ITE':
        return eval_hexpr(e.e1, s) if eval_hexpr(e.cond, s) else eval_hexpr(e.e2, s)
    if nm == 'Op':
        vals = [eval_hexpr(a, s) for a in e.args]
        if len(vals) == 1:
            return -vals[0] if e.op == '-' else (not vals[0])
        a, b = vals
        o = e.op
        if o == '+':
            return a + b
        if o == '-':
            return a - b
        if o == '*':
            return a * b
        if o == '==':
            return a == b
        if o == '!=':
            return a != b
        if o == '<=':
            return a <= b
        if o == '<':
            return a < b
        if o == '>=':
            return a >= b
        if o == '>':
            return a > b
        if o == '&':
            return bool(a) and bool(b)
        if o == '|':
            return bool(a) or bool(b)
        if o == '-->':
            return (not a) or bool(b)
        if o == '<-->':
            return bool(a) == bool(b)
    raise ValueError('cannot evaluate %r' % (e,))


INT = ('tc', 'int', ())


_CONV = {}


def eval_hol(t, s):
    r = _CONV.get(id(t))
    if r is None or r[0] is not t:
        try:
            r = (t, ref.conv_term(t))
        except Exception:
            # not a HOL term
            raise numeric.Unsupported('not a HOL term')
        if len(_CONV) > 5000:
            _CONV.clear()
        _CONV[id(t)] = r
    r = r[1]
    env = {('v', k, INT): val for k, val in s.items()}
    return numeric.ev(r, env)


GRID = [dict(x=a, y=b) for a in range(-2, 4) for b in range(-2, 4)]
VARS = {'x': 'int', 'y': 'int'}


def show_p(p):
    return '; '.join(h_p(p).print_com(VARS))


def viol(kind, case, what):
    return Outcome(kind.upper(), violation={'signature': kind + ':' + repr(case), 'what': what})


def z3_valid(hexpr):
    """validity of an imperative.expr condition over the integers, by z3 on my own encoding"""
    import z3
    x, y = z3.Int('x'), z3.Int('y')

    def enc(e):
        nm = type(e).__name__
        if nm == 'Var':
            return {'x': x, 'y': y}[e.name]
        if nm == 'Const':
            return z3.BoolVal(e.val) if isinstance(e.val, bool) else z3.IntVal(e.val)
        if nm == 'ITE':
            return z3.If(enc(e.cond), enc(e.e1), enc(e.e2))
        vals = [enc(a) for a in e.args]
        if len(vals) == 1:
            return -vals[0] if e.op == '-' else z3.Not(vals[0])
        a, b = vals
        return {'+': lambda: a + b, '-': lambda: a - b, '*': lambda: a * b, '==': lambda: a == b, '!=': lambda: a != b,
                '<=': lambda: a <= b, '<': lambda: a < b, '>=': lambda: a >= b, '>': lambda: a > b, '&': lambda: z3.And(a, b),
                '|': lambda: z3.Or(a, b), '-->': lambda: z3.Implies(a, b), '<-->': lambda: a == b}[e.op]()
    s = z3.Solver()
    s.set('timeout', 2000)
    s.add(z3.Not(enc(hexpr)))
    r = s.check()
    if r == z3.unsat:
        return True
    if r == z3.sat:
        return False
    return None


def check_vc_lines(c, case):
    """(3): every VC string, re-parsed, means the same as the computed HOL condition on the grid"""
    from imperative import parser2
    lines = c.get_lines(VARS)
    vcs = []
    for l in lines:
        if l['ty'] != 'vc':
            continue
        text = l['str']
        if '>' in text.replace('-->', ''):
            # > and >= exist only in the API, the grammar cannot read them back: nothing to compare
            vcs.append(l)
            continue
        try:
            back = parser2.cond_parser.parse(text)
        except Exception as e:
            return None, viol('vc-reparse-exc', case, 'the displayed VC %r does not parse back: %s' % (text, e))
        try:
            hol_back = back.convert_hol(VARS)
        except Exception:
            vcs.append(l)
            continue
        for s in GRID:
            try:
                a = eval_hol(l['prop'], s)
                b = eval_hol(hol_back, s)
            except numeric.Unsupported:
                break
            if bool(a) != bool(b):
                return None, viol('vc-reparse-differs', case, 'the VC is displayed as %r, which parses back to a condition that differs from the '
                                  'computed one at x=%d, y=%d (computed %s, re-parsed %s)' % (text, s['x'], s['y'], a, b))
        vcs.append(l)
    return vcs, None


def run_prog(case):
    prog, has_loop = case[1], case[2]
    n = 0
    if not has_loop:
        for Q in ASSERTS:
            c = h_p(prog)
            try:
                wp = c.compute_wp(h_c(Q))
            except NotImplementedError:
                return Outcome('not-implemented')
            try:
                wp_hol = wp.convert_hol(VARS)
            except Exception:
                wp_hol = None
            for s in GRID:
                want = ev_c(Q, execute(prog, s, [100]))
                try:
                    got = eval_hexpr(wp, s)
                    try:
                        got_hol = eval_hol(wp_hol, s)
                    except Exception:
                        got_hol = got
                except numeric.Unsupported:
                    continue
                if bool(got) != want or bool(got_hol) != want:
                    return viol('wp-wrong', case + [Q], 'program "%s", post %s: state x=%d,y=%d %s the computed wp "%s" (HOL form: %s) but the run ends in a state that %s the post' % (
                        show_p(prog), h_c(Q), s['x'], s['y'], 'satisfies' if got else 'falsifies', wp, got_hol, 'satisfies' if want else 'falsifies'))
            # the VC P --> wp as shown to the user
            c2 = h_p(prog)
            c2.pre = [h_c(PRES[1])]
            c2.compute_wp(h_c(Q))
            _, bad = check_vc_lines(c2, case + [Q])
            if bad:
                return bad
            n += 1
        return Outcome('loopfree-ok', True, obs='lf%d' % n)
    undecided = 0
    for P in (PRES if _TIER[0] == 'thorough' else PRES[:2]):
        for Q in (ASSERTS if _TIER[0] == 'thorough' else ASSERTS[::2]):
            c = h_p(prog)
            c.pre = [h_c(P)]
            try:
                c.compute_wp(h_c(Q))
            except NotImplementedError:
                return Outcome('not-implemented')
            vcs, bad = check_vc_lines(c, case + [P, Q])
            if bad:
                return bad
            # candidate: VCs true on the grid, a run from a P-state ends outside Q
            try:
                grid_ok = all(bool(eval_hol(l['prop'], s)) for l in vcs for s in GRID)
            except numeric.Unsupported:
                continue
            if not grid_ok:
                n += 1
                continue
            bad_run = None
            for s in GRID:
                if not ev_c(P, s):
                    continue
                try:
                    s2 = execute(prog, s, [60])
                except NoTermination:
                    continue
                if not ev_c(Q, s2):
                    bad_run = (s, s2)
                    break
            if bad_run is None:
                n += 1
                continue
            # the hypothesis of the statement must really hold: every VC valid over all integers
            allvalid = True
            for l in vcs:
                from imperative import parser2
                try:
                    r = z3_valid(parser2.cond_parser.parse(l['str']))
                except Exception:
                    r = None
                r2 = None
                if r is None:
                    allvalid = None
                    break
                if not r:
                    allvalid = False
                    break
            if allvalid is None:
                undecided += 1
                continue
            if allvalid:
                return viol('vc-unsound', case + [P, Q], 'program "%s" with pre %s, post %s: all verification conditions %s are valid, but the run from x=%d,y=%d ends in x=%d,y=%d which falsifies the post' % (
                    show_p(prog), h_c(P), h_c(Q), [l['str'] for l in vcs], bad_run[0]['x'], bad_run[0]['y'], bad_run[1]['x'], bad_run[1]['y']))
            n += 1
    return Outcome('loop-ok' if not undecided else 'loop-ok-some-undecided', True, obs='lp%d' % n)


# ------------------------------------------------------------------------------ imp.eval_Sem

def sem_cases(tier):
    """programs over a nat=>nat state with cells 0,1; initial values in 0..2"""
    asg = [('asg', 0, ('+', ('cell', 0), 1)), ('asg', 0, ('-', ('cell', 0), 1)), ('asg', 1, ('+', ('cell', 0), ('cell', 1))),
           ('asg', 0, ('num', 0)), ('asg', 1, ('-', ('cell', 1), ('cell', 0)))]
    conds = [('eq', ('cell', 0), 0), ('neq', ('cell', 0), 2), ('eq', ('cell', 0), ('cell', 1))]
    progs = [('skip',)] + asg + [('seq', a, b) for a in asg for b in asg]
    progs += [('if', b, c1, c2) for b in conds for c1 in asg[:3] for c2 in [('skip',)] + asg[:2]]
    progs += [('while', ('neq', ('cell', 0), 2), asg[0]), ('while', ('neq', ('cell', 0), 0), asg[1]),
              ('while', ('neq', ('cell', 0), 2), ('seq', asg[0], asg[2]))]
    if tier == 'quick':
        progs = progs[:12] + progs[12::4]
    for p in progs:
        for a in range(3):
            for b in range(2):
                yield ['sem', p, [a, b]]


def sem_val(e, st):
    if isinstance(e, int):
        return e
    if e[0] == 'cell':
        return st[e[1]]
    if e[0] == 'num':
        return e[1]
    a, b = sem_val(e[1], st), sem_val(e[2], st)
    return a + b if e[0] == '+' else max(0, a - b)


def sem_cond(b, st):
    a, c = sem_val(b[1], st), sem_val(b[2], st)
    return (a == c) if b[0] == 'eq' else (a != c)


def sem_exec(p, st, fuel):
    k = p[0]
    if k == 'skip':
        return st
    if k == 'asg':
        st2 = list(st)
        st2[p[1]] = sem_val(p[2], st)
        return st2
    if k == 'seq':
        return sem_exec(p[2], sem_exec(p[1], st, fuel), fuel)
    if k == 'if':
        return sem_exec(p[2] if sem_cond(p[1], st) else p[3], st, fuel)
    while sem_cond(p[1], st):
        fuel[0] -= 1
        if fuel[0] < 0:
            raise NoTermination()
        st = sem_exec(p[2], st, fuel)
    return st


def run_sem(case):
    from kernel.type import TFun, NatType
    from kernel.term import Var, Lambda, Eq, Not, Nat, true
    from kernel import theory
    from data import nat
    from data.function import mk_const_fun, mk_fun_upd
    from imperative import imp
    natFunT = TFun(NatType, NatType)
    s = Var('s', natFunT)

    def t_val(e):
        if isinstance(e, int):
            return Nat(e)
        if e[0] == 'cell':
            return s(Nat(e[1]))
        if e[0] == 'num':
            return Nat(e[1])
        a, b = t_val(e[1]), t_val(e[2])
        return nat.plus(a, b) if e[0] == '+' else nat.minus(a, b)

    def t_cond(b):
        eq = Eq(t_val(b[1]), t_val(b[2]))
        return Lambda(s, eq if b[0] == 'eq' else Not(eq))

    def t_prog(p):
        k = p[0]
        if k == 'skip':
            return imp.Skip(natFunT)
        if k == 'asg':
            return imp.Assign(NatType, NatType)(Nat(p[1]), Lambda(s, t_val(p[2])))
        if k == 'seq':
            return imp.Seq(natFunT)(t_prog(p[1]), t_prog(p[2]))
        if k == 'if':
            return imp.Cond(natFunT)(t_cond(p[1]), t_prog(p[2]), t_prog(p[3]))
        return imp.While(natFunT)(t_cond(p[1]), Lambda(s, true), t_prog(p[2]))
    prog, init = case[1], case[2]
    try:
        expect = sem_exec(prog, list(init), [25])
    except NoTermination:
        return Outcome('sem-nonterminating')
    st = mk_fun_upd(mk_const_fun(NatType, Nat(0)), Nat(0), Nat(init[0]), Nat(1), Nat(init[1]))
    try:
        pt = imp.eval_Sem(t_prog(prog), st)
    except RecursionError:
        return Outcome('sem-recursion')
    except Exception as e:
        return Outcome('sem-eval-fails')
    try:
        th = theory.check_proof(pt.export())
    except Exception as e:
        return viol('sem-proof-rejected', case, 'eval_Sem produced a proof that the checker rejects (%s) for %r from %r' % (e, prog, init))
    if th.hyps or not th.prop.is_comb('Sem', 3) or th.prop.args[0] != t_prog(prog) or th.prop.args[1] != st:
        return viol('sem-wrong-statement', case, 'eval_Sem proved %s for program %r from %r' % (th, prog, init))
    final = ref.conv_term(th.prop.args[2])
    try:
        f = numeric.ev(final)
        got = [f(0), f(1)]
    except Exception as e:
        return Outcome('sem-final-unevaluable')
    if got != expect:
        return viol('sem-wrong-state', case, 'eval_Sem proves the final state %r for %r from %r; a direct interpreter computes %r' % (got, prog, init, expect))
    return Outcome('sem-ok', True, obs='S')


_TIER = ['quick']


def setup(tier):
    _TIER[0] = tier
    from logic import basic
    from imperative import imp  # noqa
    basic.load_theory('hoare')


def run(case):
    if case[0] == 'prog':
        return run_prog(case)
    return run_sem(case)
