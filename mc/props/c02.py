"""C02 — the proof checker accepts only well-founded, fully justified, gap-free proofs.

E2: explicit-state search.  A state is a proof object (tuple of item descriptions) that the real
checker accepts (gaps allowed); a transition appends one item from a finite menu (ids that disagree
with positions, citations of earlier / later / foreign / nested ids, stated sequents that are exact,
weaker, stronger or unrelated, placeholders, blank lines, nested blocks, macro steps).  Every
transition is executed on the real checker (fresh Proof object) and judged by
  (a) a reference checker (position-based, keeps the set of verified items),
  (b) the semantic oracle (a proof accepted with gaps disallowed must end in a valid sequent),
  (c) gap accounting (reported gaps == placeholders present; no_gaps=True accepts iff there are none),
plus all (stated theorem, proof) pairs for Theory.checked_extend.
"""
import itertools

from mc import ref, holsem
from mc.engine import Outcome, tier_param
from mc.ref import BOOL, funs

ID = 'C02'
LEVEL = 'model_checking'
RULE = ('BFS over proof objects: state = proof accepted by theory.check_proof (gaps allowed), transition = append one item '
        'from the menu (2 id choices x 11 rules x citation lists of <=2 ids over positions/foreign/nested ids x 6 stated '
        'sequents, nested blocks of <=2 items); every transition runs the real checker twice (gaps allowed / disallowed) on a '
        'fresh Proof object. distinct_nontrivial = distinct accepted proof objects (states).')
ASSUMPTIONS = ['reference checker (mc/props/c02.py, RC) implements the 7 rules of the menu on reference terms',
               'formulas range over one boolean variable A; the semantic oracle is then exact']

A = ('v', 'A', BOOL)
FALSE = ('c', 'false', BOOL)
TRUE = ('c', 'true', BOOL)
IMP = ('c', 'implies', funs(BOOL, BOOL, BOOL))
CONJ = ('c', 'conj', funs(BOOL, BOOL, BOOL))


def imp(a, b):
    return ('app', ('app', IMP, a), b)


def conj(a, b):
    return ('app', ('app', CONJ, a), b)


AA = imp(A, A)


def bounds(tier):
    return tier_param(tier, {'depth': 3, 'nested_items': 2, 'depth3_menu': 'flat items, <=1 citation, stated sequent in {none, |- false}'},
                      {'depth': 3, 'nested_items': 2, 'depth3_menu': 'flat items with every citation list, both id choices and every stated sequent (with nested blocks it did not finish in 25 minutes)'})


# ---------------------------------------------------------------------------- item descriptions
# item = (id, rule, arg, prevs, th, sub)
#   id: tuple; rule: str; arg: None|refterm|'conjI'|'trueI'|'inst'; prevs: tuple of id tuples;
#   th: None | (hyps tuple, prop); sub: None | tuple of items


def seq_key(th):
    return (frozenset(ref.akey(h) for h in th[0]), ref.akey(th[1]))


def can_prove(res, th):
    """res is sufficient for the stated th: same conclusion, no additional hypotheses needed"""
    return ref.akey(res[1]) == ref.akey(th[1]) and set(map(ref.akey, res[0])) <= set(map(ref.akey, th[0]))


class Reject(Exception):
    pass


def visible(P, Q):
    """may the item at position path P cite the item at position path Q?"""
    l = len(Q)
    if l == 0 or l > len(P):
        return False
    if Q[:l - 1] != P[:l - 1]:
        return False
    return Q[l - 1] < P[l - 1]


def rc_rule(rule, arg, prev_ths):
    """reference implementation of the rules of the menu; raises Reject"""
    if rule == 'assume':
        if prev_ths or ref.typeof(arg) != BOOL:
            raise Reject('assume')
        return ((arg,), arg)
    if rule == 'theorem':
        if arg != 'trueI':
            raise Reject('theorem')
        return ((), TRUE)
    if rule == 'implies_intr':
        if len(prev_ths) != 1:
            raise Reject('arity')
        h, p = prev_ths[0]
        k = ref.akey(arg)
        return (tuple(x for x in h if ref.akey(x) != k), imp(arg, p))
    if rule == 'implies_elim':
        if len(prev_ths) != 2:
            raise Reject('arity')
        (h1, p1), (h2, p2) = prev_ths
        if p1[0] == 'app' and p1[1][0] == 'app' and p1[1][1] == IMP and ref.akey(p1[1][2]) == ref.akey(p2):
            return (merge_hyps(h1, h2), p1[2])
        raise Reject('implies_elim')
    if rule == 'substitution':
        if len(prev_ths) != 1:
            raise Reject('arity')
        return prev_ths[0]
    if rule == 'trivial':
        # the macro ignores its premises (they were already required to be earlier verified items)
        return ((), arg)
    if rule in ('c02_sorry', 'c02_sorry_step'):
        raise ValueError('handled in rc_check')
    if rule == 'apply_theorem':
        # conjI: A --> B --> A & B
        if len(prev_ths) > 2:
            raise Reject('arity')
        if len(prev_ths) == 2:
            (h1, p1), (h2, p2) = prev_ths
            return (merge_hyps(h1, h2), conj(p1, p2))
        raise Undetermined()
    raise Reject('unknown rule ' + rule)


class Undetermined(Exception):
    """the reference does not model this step (partial application of apply_theorem)"""


def merge_hyps(h1, h2):
    out = list(h1)
    ks = set(ref.akey(x) for x in h1)
    for x in h2:
        if ref.akey(x) not in ks:
            out.append(x)
            ks.add(ref.akey(x))
    return tuple(out)


def rc_check(items, no_gaps=False):
    """Reference checker.  Returns (ths by position path, list of gap sequents).  Raises Reject / Undetermined."""
    verified = {}
    gaps = []

    def find(path):
        its = items
        it = None
        for depth, i in enumerate(path):
            if its is None or i >= len(its) or i < 0:
                return None
            it = its[i]
            its = it[5]
        return it

    def check_item(it, P):
        idt, rule, arg, prevs, th, sub = it
        if rule == '':
            if th is not None:
                raise Reject('blank line states a sequent')
            return
        if rule == 'sorry':
            if th is None:
                raise Reject('sorry without statement')
            if no_gaps:
                raise Reject('gap')
            gaps.append(th)
            verified[P] = th
            return
        if rule == 'subproof':
            if not sub:
                raise Reject('empty subproof')
            for i, s in enumerate(sub):
                check_item(s, P + (i,))
            res = verified.get(P + (len(sub) - 1,))
            if res is None:
                raise Reject('subproof ends without a theorem')
        else:
            prev_ths = []
            if rule != 'theorem':
                for Q in prevs:
                    # a citation names a position; the cited item must carry that id, be visible from here and
                    # have been verified already
                    tgt = find(Q)
                    if tgt is None:
                        raise Reject('citation of a non-existent item')
                    if not visible(P, Q) or Q not in verified:
                        raise Reject('citation %r from %r is not an earlier verified visible item' % (Q, P))
                    if tuple(idt) != P or tuple(tgt[0]) != Q:
                        # identifiers disagree with positions: the checker may not use identifiers to order items
                        if not visible(tuple(idt), tuple(tgt[0])) and not visible(tuple(idt), Q):
                            pass
                    prev_ths.append(verified[Q])
            if rule == 'c02_sorry':
                # harness macro whose expansion is a single placeholder |- arg
                if no_gaps:
                    raise Reject('gap in macro expansion')
                gaps.append(((), arg))
                res = ((), arg)
            elif rule == 'c02_sorry_step':
                # harness macro whose expansion is: placeholder |- arg; implies_intr arg
                if no_gaps:
                    raise Reject('gap in macro expansion')
                gaps.append(((), arg))
                res = ((), imp(arg, arg))
            else:
                res = rc_rule(rule, arg, prev_ths)
        if th is None:
            verified[P] = res
        else:
            if not can_prove(res, th):
                raise Reject('stated sequent stronger than / different from the result')
            verified[P] = th

    for i, it in enumerate(items):
        check_item(it, (i,))
    return verified, gaps


# ---------------------------------------------------------------------------- real proof objects

def build_thm(th):
    from kernel.thm import Thm
    return Thm(ref.to_term(th[1]), *[ref.to_term(h) for h in th[0]])


def build_item(it):
    from kernel.proof import ProofItem, Proof
    from kernel.term import Inst
    idt, rule, arg, prevs, th, sub = it
    if rule in ('assume', 'implies_intr', 'trivial', 'c02_sorry', 'c02_sorry_step'):
        a = ref.to_term(arg)
    elif rule == 'substitution':
        a = Inst()
    elif rule in ('theorem', 'apply_theorem'):
        a = arg
    else:
        a = None
    item = ProofItem(tuple(idt), rule, args=a, prevs=[tuple(p) for p in prevs], th=build_thm(th) if th is not None else None)
    if sub is not None:
        item.subproof = Proof()
        item.subproof.items = [build_item(s) for s in sub]
    return item


def build_proof(items):
    from kernel.proof import Proof
    prf = Proof()
    prf.items = [build_item(it) for it in items]
    return prf


def real_check(items, no_gaps):
    """returns ('ok', last_th_ref_or_None, gaps_ref, ths by path) or ('rej', exception name)"""
    from kernel import theory, report
    prf = build_proof(items)
    rpt = report.ProofReport()
    try:
        res = theory.check_proof(prf, rpt, no_gaps=no_gaps)
    except RecursionError:
        return ('rej', 'RecursionError')
    except Exception as e:
        return ('rej', type(e).__name__)
    ths = {}

    def collect(its, P, descs):
        for i, (item, d) in enumerate(zip(its, descs)):
            if item.th is not None:
                ths[P + (i,)] = ref.conv_thm(item.th)
            if d[1] == 'subproof' and item.subproof is not None:
                collect(item.subproof.items, P + (i,), d[5])
    collect(prf.items, (), items)
    gaps = [ref.conv_thm(g) for g in rpt.gaps]
    return ('ok', ref.conv_thm(res) if res is not None else None, gaps, ths)


# ---------------------------------------------------------------------------- menu

CITE_IDS = [(0,), (1,), (2,), (3,), (5,), (6,), (0, 0), (1, 0), (1, 1), (2, 0)]


def prev_lists(n, pos, limit_ids=None):
    ids = [q for q in CITE_IDS if limit_ids is None or q in limit_ids]
    out = [()]
    if n >= 1:
        out += [(q,) for q in ids]
    if n >= 2:
        out += [(q, r) for q in ids for r in ids]
    return out


def th_variants(res):
    """stated sequents relative to the reference result (None if the reference could not compute one)"""
    out = [None, ((), FALSE), ((), A)]
    if res is not None:
        out.append(res)
        if res[0]:
            out.append((res[0][1:], res[1]))                       # stronger: a hypothesis removed
        if not any(ref.akey(h) == ref.akey(FALSE) for h in res[0]):
            out.append((res[0] + (FALSE,), res[1]))                # weaker: a hypothesis added
    seen = []
    for t in out:
        if t is None:
            k = None
        else:
            k = seq_key(t)
        if k not in [s[0] for s in seen]:
            seen.append((k, t))
    return [t for _, t in seen]


RULES_FLAT = [('c02_sorry', A, 0), ('c02_sorry_step', A, 0), ('assume', A, 0), ('assume', FALSE, 0), ('implies_intr', A, 1), ('implies_elim', None, 2), ('substitution', 'inst', 1),
              ('theorem', 'trueI', 0), ('trivial', AA, 0), ('apply_theorem', 'conjI', 2)]


def flat_items(pos_path, state_items, max_cites=2, ids=None, min_th=False):
    """all single items (no nested block) that may be appended at position path pos_path"""
    P = tuple(pos_path)
    id_choices = ids if ids is not None else [P, P[:-1] + (P[-1] + 5,)]
    for idt in id_choices:
        for rule, arg, arity in RULES_FLAT:
            npl = arity if arity <= max_cites else max_cites
            pls = prev_lists(npl, P) if arity > 0 else [(), ((0,),)]
            for prevs in pls:
                # reference result in this context (for the stated-sequent variants)
                res = None
                try:
                    probe = state_items_with(state_items, P, (idt, rule, arg, prevs, None, None))
                    ver, _ = rc_check(probe)
                    res = ver.get(P)
                except (Reject, Undetermined, ref.IllTyped):
                    res = None
                for th in ([None, ((), FALSE)] if min_th else th_variants(res)):
                    yield (idt, rule, arg, prevs, th, None)
        for th in [((), A), ((), FALSE), ((A,), A)]:
            yield (idt, 'sorry', None, (), th, None)
        yield (idt, 'sorry', None, (), None, None)
        for th in [None, ((), FALSE)]:
            yield (idt, '', None, (), th, None)


def state_items_with(state_items, P, item):
    """state with `item` placed at position path P (P is either top-level append or inside the last block)"""
    if len(P) == 1:
        return tuple(state_items) + (item,)
    # nested: P = (k, i): the block under construction is represented by the caller
    raise ValueError


NESTED_RULES = [('assume', A, 0), ('implies_intr', A, 1), ('substitution', 'inst', 1), ('implies_elim', None, 2)]


def nested_items(k, i, outer_n):
    """menu for the i-th item of a block at top-level position k"""
    P = (k, i)
    cites = [(0,), (k,), (k, 0), (k, 1), (k + 1,)] + ([(k - 1, 0), (k - 1, 1)] if k >= 1 else [])
    for idt in [P, (i,)]:
        for rule, arg, arity in NESTED_RULES:
            if arity == 0:
                pls = [()]
            elif arity == 1:
                pls = [(q,) for q in cites]
            else:
                pls = [(q, r) for q in cites[:3] for r in cites[:3]]
            for prevs in pls:
                yield (idt, rule, arg, prevs, None, None)
        yield (idt, 'sorry', None, (), ((A,), A), None)
        yield (idt, 'sorry', None, (), ((), FALSE), None)
        yield (idt, '', None, (), None, None)
    yield (P, 'substitution', 'inst', ((0,),), ((), FALSE), None)
    yield (P, 'substitution', 'inst', ((k, 0),), ((), FALSE), None)


def block_items(k, state_items):
    """all `subproof` items with <=2 nested items, plus primitive items carrying an attached block"""
    for n in (1, 2):
        for subs in itertools.product(*[list(nested_items(k, i, len(state_items))) for i in range(n)]):
            # cheap pre-filter: the reference result of the block (None if rejected)
            res = None
            try:
                ver, _ = rc_check(tuple(state_items) + (((k,), 'subproof', None, (), None, tuple(subs)),))
                res = ver.get((k,))
            except (Reject, Undetermined, ref.IllTyped):
                res = None
            for idt in [(k,), (k + 5,)]:
                for th in th_variants(res)[:4]:
                    yield (idt, 'subproof', None, (), th, tuple(subs))
    # a justified primitive item that carries an (ignored) attached block with a placeholder in it
    att = (((k, 0), 'sorry', None, (), ((), FALSE), None),)
    yield ((k,), 'assume', A, (), None, att)
    yield ((k,), 'theorem', 'trueI', (), ((), FALSE), att)


# ---------------------------------------------------------------------------- judging one transition

def show_items(items, ind=''):
    out = []
    for it in items:
        idt, rule, arg, prevs, th, sub = it
        s = ind + '.'.join(map(str, idt)) + ': '
        if th is not None:
            s += ref.show_thm(th) + ' by '
        s += rule or '(blank)'
        if arg is not None:
            s += ' ' + (ref.show(arg) if isinstance(arg, tuple) else str(arg))
        if prevs:
            s += ' from ' + ', '.join('.'.join(map(str, q)) for q in prevs)
        out.append(s)
        if sub:
            out.extend(show_items(sub, ind + '    '))
    return out


def state_key(items, ths):
    """Canonical form of an accepted proof.  An appended item reads earlier items only through
    find_item(path).th / .id and through the accumulated gap list, so two accepted proofs with the
    same table path -> (id, sequent, is placeholder, is block) have the same futures."""
    out = []

    def rec(its, P):
        for i, it in enumerate(its):
            Q = P + (i,)
            th = ths.get(Q)
            out.append((Q, tuple(it[0]), None if th is None else seq_key(th), it[1] == 'sorry', it[1] == 'subproof',
                        it[1] != 'subproof' and it[5] is not None))
            if it[5] is not None:
                rec(it[5], Q)
    rec(items, ())
    return tuple(out)


def judge(items):
    """returns (accepted_by_real, Outcome, canonical key or None)"""
    acc, out, r = judge0(items)
    key = None
    if acc:
        ths = dict(r[3])
        key = state_key(items, ths)
    return acc, out, key


def judge0(items):
    r = real_check(items, False)
    try:
        ver, gaps = rc_check(items)
        rc = ('ok', ver, gaps)
    except Reject as e:
        rc = ('rej', str(e))
    except Undetermined:
        rc = ('undet', '')
    except ref.IllTyped as e:
        rc = ('rej', 'ill-typed')
    if r[0] == 'rej':
        return False, Outcome('rejected' if rc[0] != 'ok' else 'rejected-but-reference-accepts'), r
    case = list(items)
    desc = '\n'.join(show_items(items))
    if rc[0] == 'undet':
        return True, Outcome('accepted-undetermined'), r
    if rc[0] == 'rej':
        return True, Outcome('ACCEPTED-UNJUSTIFIED', violation={
            'signature': 'unjustified:' + repr(items),
            'what': 'checker accepts a proof that the reference checker refuses (%s):\n%s' % (rc[1], desc)}), r
    _, ver, gaps = rc
    last, rgaps, ths = r[1], r[2], r[3]
    # per-item sequents
    for P, th in ver.items():
        got = ths.get(P)
        if got is None or seq_key(got) != seq_key(th):
            return True, Outcome('RESULT-DIFFERS', violation={
                'signature': 'differs:' + repr(items),
                'what': 'item %s: checker has %s, reference %s in\n%s' % (P, ref.show_thm(got) if got else None, ref.show_thm(th), desc)}), r
    # gap accounting
    if sorted(map(repr, map(seq_key, rgaps))) != sorted(map(repr, map(seq_key, gaps))):
        return True, Outcome('GAPS-DIFFER', violation={
            'signature': 'gaps:' + repr(items),
            'what': 'reported gaps %s, placeholders present %s in\n%s' % ([ref.show_thm(g) for g in rgaps], [ref.show_thm(g) for g in gaps], desc)}), r
    r2 = real_check(items, True)
    if gaps:
        if r2[0] == 'ok':
            return True, Outcome('GAP-TOLERATED', violation={
                'signature': 'nogaps:' + repr(items), 'what': 'accepted with gaps disallowed although it contains placeholders:\n' + desc}), r
        return True, Outcome('accepted-with-gaps', True), r
    if r2[0] != 'ok':
        return True, Outcome('NOGAPS-REJECTS', violation={
            'signature': 'nogaps-rej:' + repr(items), 'what': 'gap-free proof accepted with gaps allowed but rejected with gaps disallowed:\n' + desc}), r
    if last is not None:
        v = holsem.check_valid(last[0], last[1])
        if v[0] != 'valid':
            return True, Outcome('ACCEPTED-INVALID', violation={
                'signature': 'invalid:' + repr(items),
                'what': 'gap-free proof accepted, result %s is %s %s:\n%s' % (ref.show_thm(last), v[0], v[1], desc)}), r
    return True, Outcome('accepted-gapfree', True), r


# ---------------------------------------------------------------------------- extension pairs

def ext_cases():
    proofs = {
        'gapfree AA': ((((0,), 'assume', A, (), None, None), ((1,), 'implies_intr', A, ((0,),), None, None))),
        'gapfree false->false': ((((0,), 'assume', FALSE, (), None, None), ((1,), 'implies_intr', FALSE, ((0,),), None, None))),
        'with gap': ((((0,), 'sorry', None, (), ((), FALSE), None),)),
        'gap then step': ((((0,), 'sorry', None, (), ((), A), None), ((1,), 'implies_intr', A, ((0,),), None, None))),
        'hyp left': ((((0,), 'assume', A, (), None, None),)),
        'none': None,
        # the proof cites the very theorem it is meant to establish (not in the theory before the extension)
        'cites itself': ((((0,), 'theorem', 'c02_thm', (), None, None),)),
        'cites itself, then a step': ((((0,), 'theorem', 'c02_thm', (), None, None), ((1,), 'implies_intr', A, ((0,),), None, None))),
    }
    stated = {'AA': ((), AA), 'false': ((), FALSE), 'A': ((), A), 'A|-A': ((A,), A), 'false->false': ((), imp(FALSE, FALSE))}
    for pn, prf in proofs.items():
        for sn, th in stated.items():
            yield ['ext', pn, sn]
    globals()['_EXT_PROOFS'] = proofs
    globals()['_EXT_STATED'] = stated


def run_ext(case):
    from kernel import theory, extension
    from copy import copy
    list(ext_cases())
    prf_items = _EXT_PROOFS[case[1]]
    th = _EXT_STATED[case[2]]
    thy = copy(theory.thy)
    old = theory.thy
    theory.thy = thy
    try:
        ext = extension.Theorem('c02_thm', build_thm(th), prf=build_proof(prf_items) if prf_items is not None else None)
        try:
            rpt = thy.checked_extend([ext])
        except Exception as e:
            # a refused extension must leave nothing behind: neither the statement, nor a way to cite it later
            if thy.has_theorem('c02_thm'):
                return Outcome('EXT-REFUSED-BUT-INSTALLED', violation={
                    'signature': 'ext-lingers:' + repr(case),
                    'what': 'checked_extend refused theorem %s with proof "%s" (%s), but the theory now contains it' % (
                        ref.show_thm(th), case[1], type(e).__name__)})
            ext2 = extension.Theorem('c02_thm2', build_thm(th), prf=build_proof((((0,), 'theorem', 'c02_thm', (), None, None),)))
            try:
                rpt2 = thy.checked_extend([ext2])
                ax2 = [n for n, _ in rpt2.get_axioms()] if hasattr(rpt2, 'get_axioms') else []
                if thy.has_theorem('c02_thm2') and 'c02_thm2' not in ax2:
                    return Outcome('EXT-CITES-REFUSED', violation={
                        'signature': 'ext-cites-refused:' + repr(case),
                        'what': 'after checked_extend refused %s (proof "%s"), a second extension proves it by citing the refused name' % (
                            ref.show_thm(th), case[1])})
            except Exception:
                pass
            return Outcome('ext-refused', True)
        installed = thy.has_theorem('c02_thm')
        axioms = [n for n, _ in rpt.get_axioms()] if hasattr(rpt, 'get_axioms') else []
        if not installed:
            return Outcome('ext-not-installed')
        if 'c02_thm' in axioms:
            return Outcome('ext-axiom', True)
        # admitted as proved: the proof must be accepted gap-free and conclude the statement
        ok = False
        if prf_items is not None:
            try:
                ver, gaps = rc_check(prf_items, no_gaps=True)
                res = ver.get((len(prf_items) - 1,))
                ok = res is not None and can_prove(res, th)
            except (Reject, Undetermined):
                ok = False
        if not ok:
            return Outcome('EXT-UNPROVED-ADMITTED', violation={
                'signature': 'ext:' + repr(case),
                'what': 'checked_extend admitted theorem %s as proved (not reported as axiom) with proof "%s"' % (ref.show_thm(th), case[1])})
        return Outcome('ext-proved', True)
    finally:
        theory.thy = old


# ---------------------------------------------------------------------------- exploration

def setup(tier):
    from logic import basic
    from logic import logic  # noqa: registers macros
    from kernel import theory
    from kernel.macro import Macro
    from kernel.proofterm import ProofTerm
    from kernel.thm import Thm
    from kernel.term import Term
    basic.load_theory('logic_base')

    # two harness macros whose *expansion* contains a placeholder (the property speaks about those)
    class SorryMacro(Macro):
        def __init__(self):
            self.level = 1
            self.sig = Term
            self.limit = None

        def get_proof_term(self, args, pts):
            return ProofTerm.sorry(Thm(args))

    class SorryStepMacro(SorryMacro):
        def get_proof_term(self, args, pts):
            return ProofTerm.sorry(Thm(args)).implies_intr(args)

    if 'c02_sorry' not in theory.global_macros:
        theory.global_macros['c02_sorry'] = SorryMacro()
        theory.global_macros['c02_sorry_step'] = SorryStepMacro()


def explore(tier, shard, nshards, agg):
    depth = 3          # thorough: the full item menu also at depth 3 (a fourth level did not finish within 50 minutes)
    import sys, os
    debug = os.environ.get('VERIF_DEBUG')
    frontier = [()]
    for d in range(1, depth + 1):
        nxt = []
        seen = set()
        sharded_level = (d == 2)          # level 1 is done by everybody, level 2 is split, deeper levels stay in the worker
        for si, st in enumerate(frontier):
            if sharded_level and si % nshards != shard:
                continue
            k = len(st)
            if d <= 2:
                menu = itertools.chain(flat_items((k,), st), block_items(k, st))
            elif d == 3 and tier == 'thorough':
                menu = flat_items((k,), st)       # every citation list, both id choices, every stated sequent; no nested block
            elif d == 3:
                menu = flat_items((k,), st, max_cites=1, min_th=True)
            else:
                menu = flat_items((k,), st, max_cites=1, ids=[(k,)], min_th=True)
            for item in menu:
                items = st + (item,)
                acc, out, key = judge(items)
                if d >= 2 or shard == 0:
                    agg.transitions += 1
                    need = out.violation is not None or len(agg.samples.get(out.cls, ())) < 2
                    agg.add({'show': show_items(items), 'items': items} if need else None, out)
                if acc and out.violation is None and key not in seen:
                    seen.add(key)
                    if d >= 2 or shard == 0:
                        agg.states += 1
                    if d < depth:
                        nxt.append(items)
        frontier = nxt
        if debug:
            sys.stderr.write('depth %d: %d canonical states, transitions so far %d\n' % (d, len(nxt), agg.transitions))
    if shard == 0:
        for case in ext_cases():
            agg.add(case, run_ext(case))
            agg.transitions += 1
            agg.states += 1


def tuplify(x):
    if isinstance(x, list):
        return tuple(tuplify(y) for y in x)
    return x


def replay(case):
    if isinstance(case, list) and case and case[0] == 'ext':
        out = run_ext(case)
        print('outcome:', out.cls)
        if out.violation:
            print(out.violation['what'])
            print('VIOLATION property=C02 replay=(this file)')
            return 1
        return 0
    items = tuplify(case['items'])
    print('\n'.join(show_items(items)))
    print('real checker, gaps allowed   :', real_check(items, False)[:2])
    print('real checker, gaps disallowed:', real_check(items, True)[:2])
    try:
        ver, gaps = rc_check(items)
        print('reference checker: accepts, gaps', [ref.show_thm(g) for g in gaps])
    except Exception as e:
        print('reference checker: refuses (%s: %s)' % (type(e).__name__, e))
    acc, out, key = judge(items)
    print('outcome:', out.cls)
    if out.violation:
        print(out.violation['what'])
        print('VIOLATION property=C02 replay=(this file)')
        return 1
    return 0
