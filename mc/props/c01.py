"""C01 — every sequent the checker accepts from primitive inferences is valid.

Bounded exhaustive saturation over derivation trees: layer 0 = leaves (assume / reflexive / beta_conv /
base-logic axioms), layer k+1 = every primitive rule applied with every argument of a stated alphabet to
every premise tuple containing a layer-k theorem.  Each accepted derivation is linearised to a Proof and
checked by theory.check_proof(no_gaps=True) twice in a row; each distinct accepted sequent is judged by
oracle S (finite standard models) and by the reference type checker.
"""
import itertools

from mc import ref, holsem
from mc.engine import Outcome, tier_param
from mc.ref import BOOL, fun, funs

ID = 'C01'
LEVEL = 'exploration'
RULE = ('derivation trees over the 15 primitive rules + base-logic axioms, height<=3 (layers 0..2), rule arguments from an '
        'adversarial alphabet (same name at two types, schematic variables of schematic type, open and ill-typed terms, '
        'instantiations of <=2 variables incl. var_inst and pre-filled tyinst); premises of the last layer bounded by '
        'sequent size (see bounds). distinct_nontrivial = distinct (alpha-key) sequents accepted by check_proof and '
        'decided by the finite-model oracle.')
ASSUMPTIONS = ['finite standard models with carriers of size 1..2 (thorough 1..3) only refute',
               'theorems are deduplicated by (set of hyps, prop) modulo bound names; rule functions are assumed to be '
               'functions of the premise sequents (checked: every proof object is checked twice and must give the same result)',
               'Some/The axioms (choice) are not used as leaves']

A = ('tv', 'a')
SA = ('stv', 'a')


def v(n, T):
    return ('v', n, T)


def sv(n, T):
    return ('sv', n, T)


def app(h, *args):
    for z in args:
        h = ('app', h, z)
    return h


IMP = ('c', 'implies', funs(BOOL, BOOL, BOOL))
TRUE = ('c', 'true', BOOL)
FALSE = ('c', 'false', BOOL)


def EQ(T):
    return ('c', 'equals', funs(T, T, BOOL))


def ALL(T):
    return ('c', 'all', fun(fun(T, BOOL), BOOL))


def eq(a, b, T):
    return app(EQ(T), a, b)


def imp(a, b):
    return app(IMP, a, b)


# ------------------------------------------------------------------------------- alphabets

def alphabet(tier):
    p, q = v('p', BOOL), v('q', BOOL)
    x, y = v('x', A), v('y', A)
    xb = v('x', BOOL)                        # same name as x, other type
    f = v('f', fun(A, BOOL))
    sp = sv('p', BOOL)
    sx, sy, sz = sv('x', SA), sv('y', SA), sv('z', SA)
    sxa = sv('x', A)                         # same name as ?x, other type
    sf = sv('f', fun(SA, BOOL))
    variables = [p, x, xb, y, f, sp, sx, sy, sz, sxa]
    atoms_bool = [p, q, xb, sp, TRUE, FALSE]
    terms = []

    def add(t):
        if t not in terms:
            terms.append(t)
    for t in variables + [q, sf, TRUE, FALSE]:
        add(t)
    # applications / equalities / implications
    for a_ in (x, y):
        add(app(f, a_))
    add(app(sf, sx))
    bools = atoms_bool + [app(f, x)]
    for a_ in bools:
        for b_ in bools:
            add(imp(a_, b_))
    for a_ in (p, sp, xb, TRUE, FALSE):
        for b_ in (p, sp, xb, TRUE, FALSE):
            add(eq(a_, b_, BOOL))
    for a_ in (x, y, sxa):
        for b_ in (x, y, sxa):
            add(eq(a_, b_, A))
    for a_ in (sx, sy, sz):
        for b_ in (sx, sy, sz):
            add(eq(a_, b_, SA))
    # binders
    add(('abs', 'x', A, app(f, ('b', 0))))
    add(('abs', 'x', A, ('b', 0)))
    add(('abs', 'x', A, x))
    add(('abs', 'x', BOOL, ('b', 0)))
    add(('abs', 'p', BOOL, imp(('b', 0), p)))
    add(app(ALL(A), ('abs', 'x', A, app(f, ('b', 0)))))
    add(app(ALL(A), ('abs', 'x', A, eq(('b', 0), x, A))))
    add(app(ALL(A), ('abs', 'x', A, eq(('b', 0), ('b', 0), A))))
    add(app(ALL(BOOL), ('abs', 'p', BOOL, ('b', 0))))
    add(app(ALL(BOOL), ('abs', 'p', BOOL, imp(('b', 0), p))))
    add(app(ALL(SA), ('abs', 'x', SA, eq(('b', 0), sx, SA))))
    add(app(ALL(A), f))
    # redexes
    add(app(('abs', 'x', A, app(f, ('b', 0))), y))
    add(app(('abs', 'x', A, ('abs', 'y', A, eq(('b', 1), ('b', 0), A))), y))
    add(app(('abs', 'x', BOOL, imp(('b', 0), p)), xb))
    # redexes whose body mentions the same sub-term under different binder depths (rule arguments are built as maximally shared
    # objects, so `f (Bound 0)` below is ONE python object standing for x in one place and for y in the other)
    add(app(('abs', 'x', A, imp(app(f, ('b', 0)), app(ALL(A), ('abs', 'y', A, app(f, ('b', 0)))))), x))
    add(app(('abs', 'x', A, app(ALL(A), ('abs', 'y', A, imp(app(f, ('b', 0)), app(f, ('b', 1)))))), y))
    # adversarial: free variables named like the logical constants (must not be read as the connectives)
    vimp = v('implies', funs(BOOL, BOOL, BOOL))
    veq = v('equals', funs(A, A, BOOL))
    vall = v('all', fun(fun(A, BOOL), BOOL))
    add(app(vimp, p, q))
    add(app(vimp, p, p))
    add(app(veq, x, y))
    add(app(veq, y, x))
    add(app(vall, ('abs', 'x', A, app(f, ('b', 0)))))
    add(app(sv('implies', funs(BOOL, BOOL, BOOL)), p, q))
    # adversarial: open, ill-typed
    add(('b', 0))
    add(app(f, p))
    add(eq(x, p, A))
    add(imp(x, p))
    add(app(('abs', 'x', A, ('b', 1)), y))
    if tier == 'thorough':
        add(imp(imp(p, q), p))
        add(eq(f, f, fun(A, BOOL)))
        add(eq(('abs', 'x', A, app(f, ('b', 0))), f, fun(A, BOOL)))
        add(app(ALL(A), ('abs', 'x', A, app(ALL(A), ('abs', 'y', A, eq(('b', 1), ('b', 0), A))))))
        add(app(ALL(fun(A, BOOL)), ('abs', 'f', fun(A, BOOL), app(('b', 0), x))))
        add(imp(sp, imp(sp, FALSE)))
    small = [p, sp, xb, TRUE, FALSE, x, y, sx, sy, sxa, f, imp(p, p), imp(FALSE, FALSE), eq(x, y, A), app(f, x),
             ('abs', 'x', A, ('b', 0)), ('b', 0)]
    return {'terms': terms, 'variables': variables, 'small': small}


def inst_alphabet(alpha):
    """all instantiations of <=2 of the names {p, x, z} as schematic and/or ordinary variables by small terms,
    with and without a pre-filled tyinst"""
    p, sp = v('p', BOOL), sv('p', BOOL)
    vals = [TRUE, FALSE, v('x', BOOL), v('x', A), v('y', A), sv('y', SA), sv('x', A), imp(FALSE, FALSE), p, ('b', 0)]
    names = ['p', 'x', 'z']
    insts = [{'s': {}, 'v': {}, 't': {}}]
    singles = []
    for kind in ('s', 'v'):
        for n in names:
            for val in vals:
                singles.append((kind, n, val))
    for s in singles:
        for ty in ({}, {'a': BOOL}, {'a': A}):
            d = {'s': {}, 'v': {}, 't': dict(ty)}
            d[s[0]][s[1]] = s[2]
            insts.append(d)
    # pairs: one schematic, one more (smaller value set)
    vals2 = [TRUE, v('x', A), sv('y', SA), v('x', BOOL)]
    for (k1, n1), (k2, n2) in itertools.combinations([(k, n) for k in ('s', 'v') for n in names], 2):
        for a_ in vals2:
            for b_ in vals2:
                d = {'s': {}, 'v': {}, 't': {}}
                d[k1][n1] = a_
                d[k2][n2] = b_
                insts.append(d)
    return insts


TYINSTS = [{'a': BOOL}, {'a': A}, {'a': fun(BOOL, BOOL)}, {'a': SA}, {'b': BOOL}]

AXIOMS = ['conjI', 'conjD1', 'conjD2', 'disjI1', 'disjI2', 'disjE', 'negI', 'negE', 'trueI', 'falseE', 'exI',
          'eta_conversion', 'exE', 'classical', 'extension', 'if_P', 'if_not_P']

UNARY_TERM = ['implies_intr', 'forall_intr', 'forall_elim', 'abstraction']
BINARY = ['implies_elim', 'transitive', 'combination', 'equal_intr', 'equal_elim']


def bounds(tier):
    return tier_param(
        tier,
        {'layers': 3, 'carriers': [1, 2], 'last_layer_unary_premise_size': 16, 'last_layer_binary_premise_size': 9,
         'terms': len(alphabet(tier)['terms']), 'insts': len(inst_alphabet(None))},
        {'layers': 3, 'carriers': [1, 2, 3], 'last_layer_unary_premise_size': 22, 'last_layer_binary_premise_size': 13,
         'terms': len(alphabet(tier)['terms']), 'insts': len(inst_alphabet(None))})


# ------------------------------------------------------------------------------- derivations

class Node:
    __slots__ = ('rule', 'arg', 'prems', 'th', 'key', 'size', 'layer')

    def __init__(self, rule, arg, prems):
        self.rule = rule
        self.arg = arg          # description: None | ('t', refterm) | ('i', instdesc) | ('ty', tyinstdesc) | ('n', name)
        self.prems = prems

    def describe(self):
        a = None
        if self.arg is not None:
            if self.arg[0] == 't':
                a = ref.show(self.arg[1])
            elif self.arg[0] == 'i':
                d = self.arg[1]
                a = {'svar': {k: ref.show(x) for k, x in d['s'].items()}, 'var': {k: ref.show(x) for k, x in d['v'].items()},
                     'tyinst': {k: ref.show_type(x) for k, x in d['t'].items()}}
            elif self.arg[0] == 'ty':
                a = {k: ref.show_type(x) for k, x in self.arg[1].items()}
            else:
                a = self.arg[1]
        return {'rule': self.rule, 'show': a, 'arg': self.arg, 'prems': [p.describe() for p in self.prems]}


def tuplify(x):
    if isinstance(x, list):
        return tuple(tuplify(y) for y in x)
    if isinstance(x, dict):
        return {k: tuplify(y) for k, y in x.items()}
    return x


def node_from_desc(d):
    arg = d['arg']
    if arg is not None:
        arg = tuplify(arg)
    return Node(d['rule'], arg, [node_from_desc(p) for p in d['prems']])


def shared_term(t):
    """holpy object for a reference term in which equal sub-terms are the same python object"""
    from mc.props import c03
    return c03.to_term_shared(t, {})


def build_arg(arg):
    from kernel.term import Inst
    from kernel.type import TyInst
    if arg is None:
        return None
    if arg[0] == 't':
        return shared_term(arg[1])
    if arg[0] == 'n':
        return arg[1]
    if arg[0] == 'ty':
        return TyInst(**{k: ref.to_type(T) for k, T in arg[1].items()})
    d = arg[1]
    inst = Inst(**{k: ref.to_term(t) for k, t in d['s'].items()})
    for k, t in d['v'].items():
        inst.var_inst[k] = ref.to_term(t)
    for k, T in d['t'].items():
        inst.tyinst[k] = ref.to_type(T)
    return inst


def linearise(node):
    """fresh Proof object for the derivation"""
    from kernel.proof import Proof, ProofItem
    prf = Proof()
    ids = {}

    def rec(n):
        if id(n) in ids:
            return ids[id(n)]
        prevs = [rec(p) for p in n.prems]
        i = len(prf.items)
        prf.items.append(ProofItem(i, n.rule, args=build_arg(n.arg), prevs=prevs))
        ids[id(n)] = i
        return i
    rec(node)
    return prf


class Explorer:
    def __init__(self, tier, agg):
        from kernel import theory
        from kernel.thm import primitive_deriv
        self.theory = theory
        self.deriv = primitive_deriv
        self.tier = tier
        self.agg = agg
        self.alpha = alphabet(tier)
        self.insts = inst_alphabet(self.alpha)
        self.sizes = tier_param(tier, (1, 2), (1, 2, 3))
        self.seen = {}          # thm key -> Node
        self.valid_cache = {}
        self.hterms = {}        # ref term -> holpy term (shared objects are fine for rule arguments)

    def hterm(self, t):
        h = self.hterms.get(t)
        if h is None:
            h = shared_term(t)
            self.hterms[t] = h
        return h

    def bump(self, cls):
        self.agg.evaluations += 1
        self.agg.hist[cls] = self.agg.hist.get(cls, 0) + 1

    # -- one candidate -------------------------------------------------------------------
    def attempt(self, rule, arg, prems, collect):
        """apply the rule function directly (pre-filter); on success run the real checker and the oracle"""
        fn = self.deriv[rule][0] if rule != 'theorem' else None
        try:
            if rule == 'theorem':
                th = self.theory.thy.get_theorem(arg[1])
            elif arg is None:
                th = fn(*[p.th for p in prems])
            else:
                th = fn(build_arg(arg), *[p.th for p in prems])
        except RecursionError:
            self.bump('prefilter-recursion')
            return None
        except Exception:
            self.bump('rejected-by-rule')
            return None
        try:
            rth = ref.conv_thm(th)
        except Exception:
            self.bump('rejected-by-rule')
            return None
        key = ref.thm_key(rth)
        if key in self.seen:
            self.bump('duplicate')
            return None
        node = Node(rule, arg, prems)
        # the real seam: the checker, twice on the same proof object
        prf = linearise(node)
        try:
            res1 = self.theory.check_proof(prf, no_gaps=True)
        except Exception:
            self.bump('rejected-by-checker')
            self.seen[key] = None
            return None
        case = node.describe()
        r1 = ref.conv_thm(res1)
        try:
            res2 = self.theory.check_proof(prf, no_gaps=True)
            r2 = ref.conv_thm(res2)
            second = None if ref.thm_key(r2) == ref.thm_key(r1) else 'second check returned %s' % ref.show_thm(r2)
        except Exception as e:
            second = 'second check of the same proof object raised %s: %s' % (type(e).__name__, getattr(e, 'str', e))
        if second is not None:
            self.agg.add(case, Outcome('history-dependent', violation={
                'signature': 'twice:' + repr(case), 'what': 'proof accepted with %s, but %s' % (ref.show_thm(r1), second)}))
        key1 = ref.thm_key(r1)
        node.th = res1
        node.key = key1
        node.size = sum(ref.size(h) for h in r1[0]) + ref.size(r1[1])
        self.seen[key] = node
        self.seen[key1] = node
        # oracle
        verdict = self.valid_cache.get(key1)
        if verdict is None:
            verdict = holsem.check_valid(r1[0], r1[1], sizes=self.sizes)
            self.valid_cache[key1] = verdict
        if verdict[0] == 'valid':
            self.agg.add(case, Outcome('accepted-valid', True))
        elif verdict[0] == 'undecided':
            self.agg.add(case, Outcome('accepted-undecided'))
        elif verdict[0] == 'illtyped':
            self.agg.add(case, Outcome('accepted-illtyped', violation={
                'signature': 'illtyped:' + repr(case),
                'what': 'checker accepted a proof of the ill-typed sequent %s (%s)' % (ref.show_thm(r1), verdict[1]),
                'proof': str(prf)}))
            return None
        else:
            self.agg.add(case, Outcome('accepted-INVALID', violation={
                'signature': 'invalid:' + repr(case),
                'what': 'checker accepted a gap-free primitive proof of %s, falsified by %s' % (ref.show_thm(r1), verdict[1]),
                'proof': str(prf), 'countermodel': verdict[1]}))
            return None     # do not build on unsound theorems: report the shortest derivation only
        if collect is not None:
            collect.append(node)
        return node

    # -- layers ---------------------------------------------------------------------------
    def leaves(self):
        out = []
        for t in self.alpha['terms']:
            self.attempt('assume', ('t', t), [], out)
        for t in self.alpha['terms']:
            self.attempt('reflexive', ('t', t), [], out)
        for t in self.alpha['terms']:
            self.attempt('beta_conv', ('t', t), [], out)
        for name in AXIOMS:
            self.attempt('theorem', ('n', name), [], out)
        for n in out:
            n.layer = 0
        return out

    def unary_candidates(self, n):
        """(rule, arg) menu for premise n"""
        rth = ref.conv_thm(n.th)
        hyps = list(rth[0])
        for t in hyps + [x for x in self.alpha['small'] if x not in hyps]:
            yield ('implies_intr', ('t', t))
        for t in self.alpha['variables'] + [TRUE, ('b', 0)]:
            yield ('forall_intr', ('t', t))
            yield ('abstraction', ('t', t))
        for t in self.alpha['small']:
            yield ('forall_elim', ('t', t))
        for d in self.insts:
            yield ('substitution', ('i', d))
        for d in TYINSTS:
            yield ('subst_type', ('ty', d))
        yield ('symmetric', None)

    def expand(self, new, pool_old, out, shard=0, nshards=1, un_size=None, bin_size=None):
        """all rule applications with at least one premise from `new`"""
        for i, n in enumerate(new):
            if i % nshards != shard:
                continue
            if un_size is None or n.size <= un_size:
                for rule, arg in self.unary_candidates(n):
                    self.attempt(rule, arg, [n], out)
        allp = pool_old + new
        if bin_size is not None:
            allp_b = [m for m in allp if m.size <= bin_size]
            new_b = [m for m in new if m.size <= bin_size]
        else:
            allp_b, new_b = allp, new
        newset = set(id(m) for m in new_b)
        k = 0
        for a_ in allp_b:
            for b_ in allp_b:
                if id(a_) not in newset and id(b_) not in newset:
                    continue
                k += 1
                if k % nshards != shard:
                    continue
                pa, pb = a_.th.prop, b_.th.prop
                for rule in BINARY:
                    self.attempt(rule, None, [a_, b_], out)


def setup(tier):
    from logic import basic
    basic.load_theory('logic_base', limit=('thm', 'trivial'))


def explore(tier, shard, nshards, agg):
    ex = Explorer(tier, agg)
    l0 = ex.leaves()
    l1 = []
    ex.expand(l0, [], l1)
    for n in l1:
        n.layer = 1
    agg.extra['layer0_theorems'] = len(l0) if shard == 0 else 0
    agg.extra['layer1_theorems'] = len(l1) if shard == 0 else 0
    # counts of the redundant layers are only reported once
    if shard != 0:
        keep = {k: v for k, v in agg.hist.items() if k in ('history-dependent', 'accepted-illtyped', 'accepted-INVALID')}
        ev_before = agg.evaluations
        agg.evaluations = 0
        agg.nontrivial = 0
        agg.hist = {}
        agg.samples = {}
        # violations found in the shared layers are reported by shard 0 only
        agg.violations = []
        agg.nviol = 0
    b = bounds(tier)
    out = []
    ex.expand(l1, l0, None, shard, nshards, b['last_layer_unary_premise_size'], b['last_layer_binary_premise_size'])


def replay(case):
    """case = derivation description written by Node.describe(); rebuilt, checked and judged without the explorer"""
    from kernel import theory
    node = node_from_desc(case)
    prf = linearise(node)
    print('proof object:')
    print(prf)
    try:
        res = theory.check_proof(prf, no_gaps=True)
    except Exception as e:
        print('checker rejects: %s %s' % (type(e).__name__, getattr(e, 'str', e)))
        return 0
    print('checker accepts:', res)
    bad = 0
    try:
        res2 = theory.check_proof(prf, no_gaps=True)
        print('second check of the same object:', res2)
    except Exception as e:
        print('second check of the same object raised %s %s' % (type(e).__name__, getattr(e, 'str', e)))
        bad = 1
    r = ref.conv_thm(res)
    verdict = holsem.check_valid(r[0], r[1], sizes=(1, 2, 3))
    print('oracle:', verdict)
    if verdict[0] in ('invalid', 'illtyped') or bad:
        print('VIOLATION property=C01 replay=(this file)')
        return 1
    return 0
