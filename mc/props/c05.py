"""C05 — trusted arithmetic evaluation steps only assert true arithmetic facts.  E1 over ground goals, oracle N."""
import itertools
from fractions import Fraction

from mc import ref, numeric
from mc.engine import Outcome, tier_param
from mc.numeric import NAT, INT, REAL

ID = 'C05'
LEVEL = 'exploration'
WALL_S = 30.0
LINE_BUDGET = 60000000
RULE = ('ground goals lhs REL rhs at nat, int and real: lhs = every expression with <=2 operators (thorough 3 along one side) over the '
        'leaf numerals {0,1,2,3,7,10^20,10^20+1, 1/2,1/3,2/4, n/0} and + - * / ^ uminus Suc of_nat of_int real_inverse; rhs in '
        '{exact value, value+1, the value under the other type\'s semantics, 0}; REL in {=, ~=, <, <=, >, >=}; each goal offered to '
        'EVERY level-0 arithmetic macro through a one-step theory.check_proof; real_norm additionally on polynomial identities with '
        'free real and nat variables; const_inequality on goals with sqrt/pi/exp/log/sin/cos/atn/abs. distinct_nontrivial = '
        'distinct (macro, goal) pairs that were ACCEPTED and whose resulting sequent the oracle evaluated.')
ASSUMPTIONS = ['exact evaluation mc/numeric.py (Fraction arithmetic, HOL conventions); sympy only for exact zero-tests / 50-digit '
               'signs of irrational constants (undecided otherwise)']

MACROS = ['nat_eval', 'int_eval', 'real_eval', 'int_const_ineq', 'real_const_ineq', 'real_const_eq', 'real_compare',
          'real_eq_comparison', 'real_norm', 'const_inequality', 'nat_const_ineq', 'nat_const_less_eq', 'nat_const_less']


def bounds(tier):
    return tier_param(tier, {'operators': 2, 'level2_leaves': 4}, {'operators': 2, 'level2_leaves': 7, 'extra': 'level 3 along the left spine'})


# ------------------------------------------------------------------------------ term building (holpy constructors)

def num(T, x):
    from kernel.term import Nat, Int, Real
    from kernel import term
    if T == 'nat':
        return Nat(x)
    if T == 'int':
        if x < 0:
            return term.uminus(term.IntType)(Int(-x))
        return Int(x)
    if isinstance(x, Fraction) and x.denominator != 1:
        p, q = x.numerator, x.denominator
        a = Real(abs(p)) / Real(q)
        return term.uminus(term.RealType)(a) if p < 0 else a
    x = int(x)
    if x < 0:
        return term.uminus(term.RealType)(Real(-x))
    return Real(x)


def leaves(T, n=None):
    from kernel.term import Nat, Int, Real
    big = 10 ** 20
    if T == 'nat':
        L = [Nat(0), Nat(2), Nat(3), Nat(big), Nat(1), Nat(7), Nat(big + 1)]
    elif T == 'int':
        L = [Int(0), Int(2), Int(3), Int(big), Int(1), Int(7), Int(big + 1)]
    else:
        L = [Real(0), Real(2), Real(3), Real(1) / Real(2), Real(1), Real(1) / Real(3), Real(2) / Real(4), Real(big), Real(1) / Real(0),
             Real(big + 1)]
    return L if n is None else L[:n]


def unary_ops(T):
    from kernel import term
    from kernel.term import Const
    from kernel.type import TFun, NatType, IntType, RealType
    if T == 'nat':
        return [lambda a: Const('Suc', TFun(NatType, NatType))(a)]
    if T == 'int':
        return [lambda a: term.uminus(IntType)(a)]
    return [lambda a: term.uminus(RealType)(a), lambda a: Const('real_inverse', TFun(RealType, RealType))(a)]


def binary_ops(T):
    from kernel import term
    from kernel.type import NatType, IntType, RealType
    HT = {'nat': NatType, 'int': IntType, 'real': RealType}[T]
    ops = [lambda a, b: term.plus(HT)(a, b), lambda a, b: term.minus(HT)(a, b), lambda a, b: term.times(HT)(a, b)]
    if T == 'real':
        ops.append(lambda a, b: term.divides(HT)(a, b))
    return ops


def casts(T):
    """expressions of another type cast into T"""
    from kernel import term
    from kernel.term import Nat, Int
    from kernel.type import NatType, IntType, RealType
    out = []
    if T in ('int', 'real'):
        HT = IntType if T == 'int' else RealType
        out += [term.of_nat(HT)(Nat(3)), term.of_nat(HT)(term.minus(NatType)(Nat(2), Nat(3))), term.of_nat(HT)(term.plus(NatType)(Nat(2), Nat(3)))]
    if T == 'real':
        out += [term.of_int(RealType)(Int(3)), term.of_int(RealType)(term.minus(IntType)(Int(2), Int(3)))]
    return out


def powers(T, base):
    from kernel import term
    from kernel.term import Nat, Real
    from kernel.type import NatType, IntType, RealType
    HT = {'nat': NatType, 'int': IntType, 'real': RealType}[T]
    out = []
    if T in ('nat', 'real'):
        for e in (0, 2, 3):
            out.append(term.nat_power(HT)(base, Nat(e)))
    if T == 'real':
        for e in (Real(2), Real(0), term.uminus(RealType)(Real(1)), Real(1) / Real(2)):
            out.append(term.real_power(HT)(base, e))
    return out


def expressions(T, tier):
    L = leaves(T)
    l1 = []
    for o in unary_ops(T):
        for a in L:
            l1.append(o(a))
    for o in binary_ops(T):
        for a in L:
            for b in L:
                l1.append(o(a, b))
    for a in L[:5]:
        l1.extend(powers(T, a))
    l1.extend(casts(T))
    out = list(L) + l1
    L2 = leaves(T, bounds(tier)['level2_leaves'])
    step = 1 if tier == 'thorough' else 8
    for o in binary_ops(T):
        for e in l1[::step]:
            for a in L2:
                out.append(o(e, a))
                out.append(o(a, e))
    for o in unary_ops(T):
        for e in l1[::step]:
            out.append(o(e))
    return out


RELS = ['eq', 'neq', 'less', 'less_eq', 'greater', 'greater_eq']


def mk_goal(rel, a, b):
    from kernel import term
    from kernel.term import Eq, Not
    T = a.get_type()
    if rel == 'eq':
        return Eq(a, b)
    if rel == 'neq':
        return Not(Eq(a, b))
    return getattr(term, rel)(T)(a, b)


def value(t):
    """exact value of a ground holpy term under the semantics of the types that occur; None if outside the fragment"""
    try:
        return numeric.ev(ref.conv_term(t))
    except (numeric.Unsupported, ZeroDivisionError, OverflowError, ValueError, TypeError):
        return None


def other_semantics(T, t):
    """value of t if all of its operators were read at another numeric type (nat <-> int/real)"""
    r = ref.conv_term(t)
    target = INT if T == 'nat' else NAT

    def swap_type(Ty):
        if Ty[0] == 'tc' and Ty[1] in ('nat', 'int', 'real') and not Ty[2]:
            return target
        if Ty[0] == 'tc':
            return ('tc', Ty[1], tuple(swap_type(a) for a in Ty[2]))
        return Ty

    def swap(x):
        k = x[0]
        if k == 'c':
            if x[1] in ('bit0', 'bit1'):
                return x
            if x[1] == 'of_nat':
                return ('c', 'of_nat', ('tc', 'fun', (NAT, target)))
            if x[1] == 'one' or x[1] == 'zero':
                return ('c', x[1], swap_type(x[2]))
            return ('c', x[1], swap_type(x[2]))
        if k == 'app':
            # keep numerals intact
            if x[1][0] == 'c' and x[1][1] == 'of_nat':
                return ('app', ('c', 'of_nat', ('tc', 'fun', (NAT, target))), x[2])
            return ('app', swap(x[1]), swap(x[2]))
        return x
    try:
        return numeric.ev(swap(r))
    except Exception:
        return None


def cases(tier):
    for T in ('nat', 'int', 'real'):
        n = len(_expressions(T, tier))
        for i in range(n):
            yield ['ground', T, i]
    for i in range(len(_poly_pairs(tier))):
        yield ['poly', i]
    for i in range(len(_irr_goals())):
        yield ['irr', i]


_E = {}


def _expressions(T, tier):
    k = (T, tier)
    if k not in _E:
        from mc.engine import import_holpy
        import_holpy()
        _E[k] = expressions(T, tier)
    return _E[k]


# ------------------------------------------------------------------------------ judging

def offer(macro, goal):
    """one-step proof through the real checker; returns the resulting Thm or None"""
    from kernel import theory
    from kernel.proof import Proof, ProofItem
    if not theory.has_macro(macro):
        return None
    prf = Proof()
    prf.items = [ProofItem(0, macro, args=goal)]
    try:
        return theory.check_proof(prf)
    except RecursionError:
        return None
    except Exception:
        return None


def viol(kind, case, what):
    return Outcome(kind.upper(), violation={'signature': kind + ':' + repr(case), 'what': what})


def show(t):
    try:
        return ref.show(ref.conv_term(t))
    except Exception:
        return repr(t)


def pretty(t):
    """compact readable form with types at numerals"""
    r = ref.conv_term(t)

    def go(x):
        if x[0] == 'c':
            if x[1] == 'zero':
                return '(0::%s)' % x[2][1]
            if x[1] == 'one':
                return '(1::%s)' % x[2][1]
            return x[1]
        if x[0] == 'app':
            if x[1][0] == 'c' and x[1][1] == 'of_nat':
                try:
                    return '(%d::%s)' % (numeric.ev(x[2]), x[1][2][2][1][1]) if is_bits(x[2]) else 'of_nat@%s (%s)' % (x[1][2][2][1][1], go(x[2]))
                except Exception:
                    pass
            h = x
            args = []
            while h[0] == 'app':
                args.append(h[2])
                h = h[1]
            args.reverse()
            sym = {'plus': '+', 'minus': '-', 'times': '*', 'real_divide': '/', 'power': '^', 'equals': '=', 'less': '<', 'less_eq': '<=',
                   'greater': '>', 'greater_eq': '>='}
            if h[0] == 'c' and h[1] in sym and len(args) == 2:
                return '(%s %s@%s %s)' % (go(args[0]), sym[h[1]], ref.show_type(ref.result_type(h[2]) if hasattr(ref, 'result_type') else h[2][2][0]), go(args[1]))
            return '(%s %s)' % (go(h), ' '.join(go(a) for a in args))
        return ref.show(x)

    def is_bits(x):
        if x[0] == 'c':
            return x[1] == 'one'
        return x[0] == 'app' and x[1][0] == 'c' and x[1][1] in ('bit0', 'bit1') and is_bits(x[2])
    try:
        return go(r)
    except Exception:
        return ref.show(r)


def run_ground(case, tier):
    T, i = case[1], case[2]
    e = _expressions(T, tier)[i]
    v0 = value(e)
    rhs_vals = []
    if v0 is not None:
        rhs_vals += [v0, v0 + 1]
    vo = other_semantics(T, e)
    if vo is not None:
        rhs_vals.append(vo)
    rhs_vals.append(0)
    seen = []
    accepted = 0
    for rv in rhs_vals:
        if T != 'real' and (not isinstance(rv, int) and not (isinstance(rv, Fraction) and rv.denominator == 1)):
            continue
        if T == 'nat' and rv < 0:
            continue
        if rv in seen:
            continue
        seen.append(rv)
        try:
            rhs = num(T, Fraction(rv) if T == 'real' else int(rv))
        except Exception:
            continue
        for rel in RELS:
            goal = mk_goal(rel, e, rhs)
            for macro in MACROS:
                th = offer(macro, goal)
                if th is None:
                    continue
                accepted += 1
                if th.hyps:
                    return viol('hyps', case + [rel, str(rv), macro], '%s on %s returned a sequent with hypotheses' % (macro, pretty(goal)))
                truth = value(th.prop)
                if truth is None:
                    continue
                if truth is not True:
                    return viol('false-fact', case + [rel, str(rv), macro],
                                'macro %s accepted the goal %s and asserts %s, which is false under the semantics of the types that occur (lhs evaluates to %s)' % (
                                    macro, pretty(goal), pretty(th.prop), v0))
    return Outcome('ground-accepted' if accepted else 'ground-all-rejected', accepted > 0, obs='%s%d:%d' % (T, i, accepted))


# ------------------------------------------------------------------------------ real_norm on polynomial identities

_P = {}


def _poly_pairs(tier):
    if tier in _P:
        return _P[tier]
    from mc.engine import import_holpy
    import_holpy()
    from kernel import term
    from kernel.term import Var, Real, Nat, Eq
    from kernel.type import RealType, NatType
    x, y = Var('x', RealType), Var('y', RealType)
    m, n = Var('m', NatType), Var('n', NatType)
    R = RealType
    onat = term.of_nat(RealType)
    L = [x, y, Real(1), Real(2), Real(1) / Real(2), onat(m), onat(n), onat(term.minus(NatType)(m, n)), onat(term.plus(NatType)(m, n)),
         onat(term.minus(NatType)(Nat(3), Nat(5)))]
    l1 = list(L)
    for a in L:
        for b in L:
            l1.append(term.plus(R)(a, b))
            l1.append(term.minus(R)(a, b))
            l1.append(term.times(R)(a, b))
    for a in L[:4]:
        l1.append(term.uminus(R)(a))
        l1.append(term.nat_power(R)(a, Nat(2)))
    pairs = []
    l1s = l1 if tier == 'thorough' else l1[:10] + l1[10::5]
    for a in l1s:
        for b in l1s:
            pairs.append(Eq(a, b))
    # one level deeper on the left
    for a in l1s[10:]:
        for c_ in L[:5]:
            for b in l1s[:60] if tier == 'thorough' else l1s[:12]:
                pairs.append(Eq(term.plus(R)(a, c_), b))
                pairs.append(Eq(term.times(R)(a, c_), b))
    # powers whose natural-number exponent contains a truncated subtraction (1 - 2 = 0 at nat): the exponent must be normalised as a nat
    mN, pN = term.minus(NatType), term.plus(NatType)
    exps = [pN(mN(Nat(1), Nat(2)), Nat(2)), mN(Nat(3), mN(Nat(1), Nat(2))), pN(mN(Nat(2), Nat(3)), Nat(1)), mN(Nat(3), Nat(1)),
            pN(mN(Nat(0), Nat(1)), Nat(3)), mN(Nat(4), pN(mN(Nat(1), Nat(3)), Nat(1)))]
    for base in (x, Real(2)):
        rhss = [Real(1), base] + [term.nat_power(R)(base, Nat(k)) for k in (2, 3, 4)]
        for e_ in exps:
            for r_ in rhss:
                pairs.append(Eq(term.nat_power(R)(base, e_), r_))
    _P[tier] = pairs
    return pairs


GRID_R = [Fraction(-2), Fraction(-1, 2), Fraction(0), Fraction(1, 3), Fraction(1), Fraction(3)]
GRID_N = [0, 1, 2, 3]


def run_poly(case, tier):
    goal = _poly_pairs(tier)[case[1]]
    th = offer('real_norm', goal)
    if th is None:
        return Outcome('poly-rejected')
    r = ref.conv_term(th.prop)
    atoms = [a for a in ref.free_atoms(r) if a[0] == 'v']
    pools = [GRID_R if a[2] == REAL else GRID_N for a in atoms]
    for vals in itertools.product(*pools):
        env = dict(zip(atoms, vals))
        try:
            ok = numeric.ev(r, env)
        except numeric.Unsupported:
            return Outcome('poly-accepted-unevaluable')
        if ok is not True:
            return viol('real_norm-false', case, 'real_norm accepted %s, which is false at %s' % (
                pretty(goal), {a[1]: str(x) for a, x in zip(atoms, vals)}))
    return Outcome('poly-accepted', True, obs='P')


# ------------------------------------------------------------------------------ irrational constants

_I = []


def _irr_goals():
    if _I:
        return _I
    from mc.engine import import_holpy
    import_holpy()
    try:
        from data import real
    except Exception:
        return _I
    from kernel import term
    from kernel.term import Real, Eq, Not
    from kernel.type import RealType
    R = RealType
    atoms = [real.sqrt(Real(2)), real.sqrt(Real(4)), real.pi, real.exp(Real(1)), real.log(Real(2)), real.sin(Real(1)), real.cos(real.pi),
             real.atn(Real(1)), real.hol_abs(term.uminus(R)(Real(2))), real.exp(Real(0)), real.log(Real(1)), real.sin(real.pi),
             real.sqrt(Real(2)) * real.sqrt(Real(2)), real.exp(real.log(Real(3))), real.pi / Real(4)]
    nums = [Real(0), Real(1), Real(2), Real(3), Real(4), Real(1) / Real(4), real.pi / Real(4), real.sqrt(Real(2))]
    for a in atoms:
        for b in nums:
            for rel in RELS:
                _I.append(mk_goal(rel, a, b))
    return _I


def sym_of(t):
    """sympy expression of a ground real term"""
    import sympy
    r = ref.conv_term(t)

    def go(x):
        if x[0] == 'c':
            if x[1] == 'zero':
                return sympy.Integer(0)
            if x[1] == 'one':
                return sympy.Integer(1)
            if x[1] == 'pi':
                return sympy.pi
            raise numeric.Unsupported(x[1])
        h = x
        args = []
        while h[0] == 'app':
            args.append(h[2])
            h = h[1]
        args.reverse()
        nm = h[1]
        if nm == 'of_nat':
            return sympy.Integer(numeric.ev(args[0]))
        a = [go(z) for z in args]
        f = {'plus': lambda: a[0] + a[1], 'minus': lambda: a[0] - a[1], 'times': lambda: a[0] * a[1], 'uminus': lambda: -a[0],
             'real_divide': lambda: a[0] / a[1], 'sqrt': lambda: sympy.sqrt(a[0]), 'exp': lambda: sympy.exp(a[0]), 'log': lambda: sympy.log(a[0]),
             'sin': lambda: sympy.sin(a[0]), 'cos': lambda: sympy.cos(a[0]), 'atn': lambda: sympy.atan(a[0]), 'abs': lambda: sympy.Abs(a[0])}
        if nm not in f:
            raise numeric.Unsupported(nm)
        return f[nm]()
    return go(r)


def run_irr(case):
    import sympy
    goal = _irr_goals()[case[1]]
    res = []
    for macro in MACROS:
        th = offer(macro, goal)
        if th is None:
            continue
        p = th.prop
        neg = False
        if p.is_not():
            neg = True
            p = p.arg
        try:
            a, b = sym_of(p.arg1), sym_of(p.arg)
        except Exception:
            res.append('undecided')
            continue
        d = sympy.simplify(a - b)
        if d.is_zero is True or d == 0:
            sign = 0
        else:
            val = d.evalf(50)
            if abs(val) < sympy.Float('1e-30'):
                res.append('undecided')
                continue
            sign = 1 if val > 0 else -1
        if p.is_equals():
            truth = (sign == 0)
        elif p.is_less():
            truth = sign < 0
        elif p.is_less_eq():
            truth = sign <= 0
        elif p.is_greater():
            truth = sign > 0
        elif p.is_greater_eq():
            truth = sign >= 0
        else:
            res.append('undecided')
            continue
        if neg:
            truth = not truth
        if not truth:
            return viol('irrational-false', ['irr', pretty(goal), macro], 'macro %s accepted %s and asserts %s, which is false (exact difference of the two sides: %s)' % (
                macro, pretty(goal), pretty(th.prop), d))
        res.append('ok')
    if not res:
        return Outcome('irr-rejected')
    return Outcome('irr-accepted' if 'ok' in res else 'irr-undecided', 'ok' in res, obs='I')


_TIER = ['quick']


def setup(tier):
    _TIER[0] = tier
    from logic import basic
    basic.load_theory('real')
    from data import nat, integer, real  # noqa
    for _ in range(2):
        try:
            basic.load_theory('realintegral')      # sqrt, pi, exp, ... for const_inequality
            break
        except Exception:
            pass
    try:
        from integral import inequality  # noqa registers const_inequality
    except Exception:
        pass


def run(case):
    if case[0] == 'ground':
        return run_ground(case, _TIER[0])
    if case[0] == 'poly':
        return run_poly(case, _TIER[0])
    return run_irr(case)
