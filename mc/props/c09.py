"""C09 — a successful match really instantiates the pattern to the target.  E1, oracles R (+S)."""
import copy
import itertools

from mc import ref, gen
from mc.engine import Outcome, tier_param
from mc.ref import BOOL, fun, funs

ID = 'C09'
LEVEL = 'exploration'
WALL_S = 20.0
LINE_BUDGET = 40000000
RULE = ('every pattern (all well-typed terms up to the size bound over constants c,f,g,H,P, free x, schematic ?x ?y ?F ?G and the '
        'type-polymorphic ?z/id, binders named x/y in all combinations) x every target in {instances under all instantiations from '
        'a small value universe, all one-leaf perturbations of those instances, small unrelated terms} x pre-seeded '
        'instantiation in {empty, compatible, incompatible}. distinct_nontrivial = distinct (pattern,target,seed) on which '
        'matching succeeded and the oracle compared beta-eta normal forms.')
ASSUMPTIONS = ['reference substitution / beta-eta normalisation in mc/ref.py',
               'only pairs whose target type is an instance of the pattern type are used']

A = ('tv', 'a')
SB = ('stv', 'b')


def v(n, T):
    return ('v', n, T)


def sv(n, T):
    return ('sv', n, T)


C = ('c', 'c', A)
D = ('c', 'd', A)
F = ('c', 'f', fun(A, A))
G = ('c', 'g', funs(A, A, A))
H = ('c', 'H', funs(A, fun(A, A), A))
P = ('c', 'P', fun(A, BOOL))
X = v('x', A)
SX, SY = sv('x', A), sv('y', A)
SF = sv('F', fun(A, A))
SG = sv('G', funs(A, A, A))
SZ = sv('z', SB)
ID_ = ('c', 'id', fun(SB, SB))

PAT_ATOMS = [C, F, G, H, P, X, SX, SY, SF, SG]


def bounds(tier):
    return tier_param(tier, {'pattern_size': 6, 'values_per_var': 5, 'poly_patterns': 'id ?z shapes'},
                      {'pattern_size': 7, 'values_per_var': 6, 'poly_patterns': 'id ?z shapes'})


def values(T):
    if T == A:
        return [C, X, ('app', F, C), ('app', F, X), v('y', A), ('app', ('app', G, C), X)]
    if T == fun(A, A):
        return [F, ('abs', 'u', A, ('b', 0)), ('app', G, C), ('abs', 'x', A, X), ('abs', 'u', A, ('app', ('app', G, ('b', 0)), ('b', 0))),
                ('abs', 'u', A, C)]
    if T == funs(A, A, A):
        return [G, ('abs', 'u', A, ('abs', 'w', A, ('b', 0))), ('abs', 'u', A, ('abs', 'w', A, ('app', ('app', G, ('b', 0)), ('b', 1)))),
                ('abs', 'u', A, F)]
    if T == BOOL:
        return [('app', P, C), ('app', P, X)]
    return []


def patterns(tier):
    g = gen.TermGen(PAT_ATOMS, [A], names=('x', 'y'), all_names=True)
    out = []
    for n in range(1, bounds(tier)['pattern_size'] + 1):
        for t, T in g.gen(n):
            if n >= 6 and not interesting(t):
                continue
            out.append(t)
    # type-polymorphic patterns
    idA = ('c', 'id', fun(A, A))
    out += [SZ, ('app', ID_, SZ), ('app', ('c', 'equals', funs(SB, SB, BOOL)), SZ), ('app', ('app', ('c', 'equals', funs(SB, SB, BOOL)), SZ), SZ),
            ('abs', 'x', SB, ('app', ID_, ('b', 0))), ('abs', 'x', SB, SZ)]
    return out


def interesting(t):
    """for the largest size keep patterns with a schematic variable and a binder (the rest was covered at smaller sizes
    in the same shapes)"""
    s = ref.show(t)
    return '?' in s and '%' in s


def svars_of(t):
    return [a for a in ref.free_atoms(t) if a[0] == 'sv']


def leaves_replace(t, bs=()):
    """all one-leaf perturbations of t (same type at that leaf)"""
    k = t[0]
    if k == 'app':
        for r in leaves_replace(t[1], bs):
            yield ('app', r, t[2])
        for r in leaves_replace(t[2], bs):
            yield ('app', t[1], r)
    elif k == 'abs':
        for r in leaves_replace(t[3], (t[2],) + tuple(bs)):
            yield ('abs', t[1], t[2], r)
    else:
        T = bs[t[1]] if k == 'b' else t[2]
        cands = [C, D, X, v('y', A), F, G] + [('b', i) for i in range(len(bs))]
        for c in cands:
            Tc = bs[c[1]] if c[0] == 'b' else c[2]
            if Tc == T and c != t:
                yield c


def targets(pat, tier):
    """yields (target, sigma or None)"""
    svs = svars_of(pat)
    nvals = bounds(tier)['values_per_var']
    seen = set()
    if any(a[2] == SB or SB in ref.type_atoms(a[2], []) for a in ref.free_atoms(pat)) or SB in ref.term_type_atoms(pat):
        for TB in (A, BOOL, fun(A, A)):
            p2 = ref.tysubst(pat, {SB: TB})
            svs2 = svars_of(p2)
            pools = [values(a[2])[:3] for a in svs2]
            for vals in itertools.product(*pools):
                m = dict(zip(svs2, vals))
                try:
                    tgt = ref.beta_nf(ref.subst_free(p2, m), 200)
                except ref.OutOfFuel:
                    continue
                if tgt not in seen:
                    seen.add(tgt)
                    yield tgt, {a[1]: x for a, x in m.items()}
        return
    pools = [values(a[2])[:nvals] for a in svs]
    insts = []
    fo = is_fo(pat)
    for vals in itertools.product(*pools):
        m = dict(zip(svs, vals))
        try:
            # first-order pattern: the exact instance (completeness is about equality, not beta-equality);
            # otherwise the beta-normal form of the instance
            tgt = ref.subst_free(pat, m) if fo else ref.beta_nf(ref.subst_free(pat, m), 200)
        except ref.OutOfFuel:
            continue
        insts.append(tgt)
        if tgt not in seen:
            seen.add(tgt)
            yield tgt, {a[1]: x for a, x in m.items()}
    for tgt in insts[:40]:
        for t2 in leaves_replace(tgt):
            if t2 not in seen:
                seen.add(t2)
                yield t2, None
    try:
        T = ref.typeof(pat)
    except ref.IllTyped:
        return
    for u in UNRELATED.get(T, []):
        if u not in seen:
            seen.add(u)
            yield u, None


UNRELATED = {}


def init_unrelated():
    g = gen.TermGen([C, F, G, P, X], [A], names=('x',))
    for n in range(1, 5):
        for t, T in g.gen(n):
            UNRELATED.setdefault(T, []).append(t)


def cases(tier):
    for i, pat in enumerate(patterns(tier)):
        yield ['pat', i]
    n = len(LIST_PATS)
    for i in range(n):
        for j in range(n):
            yield ['list', i, j]


LIST_PATS = [SX, ('app', F, SX), ('app', SF, SX), ('app', SF, C), ('app', ('app', G, SX), SY), ('abs', 'x', A, ('app', SF, ('b', 0))),
             ('app', ('app', SG, SX), SY), ('app', P, SX), ('app', ('app', H, SY), ('abs', 'x', A, SY))]

_PATS = {}


def setup(tier):
    from logic import basic
    basic.load_theory('logic_base')
    init_unrelated()
    _PATS['tier'] = tier
    _PATS['list'] = patterns(tier)


def is_fo(t):
    k = t[0]
    if k == 'abs':
        return is_fo(t[3])
    if k == 'app':
        h = t
        args = []
        while h[0] == 'app':
            args.append(h[2])
            h = h[1]
        if h[0] == 'sv':
            return False
        return is_fo(h) and all(is_fo(a) for a in args)
    return True


def snapshot(inst):
    return (sorted((k, ref.conv_term(x)) for k, x in inst.items()), sorted((k, ref.conv_type(T)) for k, T in inst.tyinst.items()),
            sorted((k, ref.conv_term(x)) for k, x in inst.var_inst.items()), sorted(inst.abs_name_inst.items()))


def show_inst(res):
    try:
        return ', '.join('?%s := %s' % (k, ref.show(ref.conv_term(x))) for k, x in sorted(res.items())) + \
            ''.join("; '%s := %s" % (k, ref.show_type(ref.conv_type(T))) for k, T in sorted(res.tyinst.items()))
    except Exception as e:
        return '<unprintable %s>' % e


def viol(kind, case, what):
    return Outcome(kind.upper(), violation={'signature': kind + ':' + repr(case), 'what': what})


def judge_match(pat_ref, tgt_ref, seed_map, sigma, case):
    """returns (status, Outcome|None)"""
    from kernel.term import Inst
    from logic import matcher
    pat = ref.to_term(pat_ref)
    tgt = ref.to_term(tgt_ref)
    seed = Inst()
    for k, x in seed_map.items():
        seed[k] = ref.to_term(x)
    before = snapshot(seed)
    desc = 'pattern %s, target %s, seed %s' % (ref.show(pat_ref), ref.show(tgt_ref), {k: ref.show(x) for k, x in seed_map.items()})
    try:
        res = matcher.first_order_match(pat, tgt, seed)
    except matcher.MatchException:
        res = None
    except RecursionError:
        return 'exc', viol('match-recursion', case, 'RecursionError: ' + desc)
    except Exception as e:
        # any other exception is not "its own error"; but the statement only constrains successful matches
        return 'exc', None
    if snapshot(seed) != before:
        return 'bad', viol('seed-modified', case, 'the instantiation passed in was modified: ' + desc)
    if res is None:
        if sigma is not None and is_fo(pat_ref) and all(sigma.get(k) == x for k, x in seed_map.items()):
            return 'bad', viol('incomplete', case, 'first-order pattern, target is an instance (%s) but matching fails: %s' % (
                {k: ref.show(x) for k, x in sigma.items()}, desc))
        return 'fail', None
    # extends the seed
    for k, x in seed_map.items():
        if k not in res or ref.akey(ref.conv_term(res[k])) != ref.akey(x):
            return 'bad', viol('seed-altered', case, 'returned instantiation alters the seed at ?%s: %s' % (k, desc))
    # applying the instantiation gives the target
    try:
        got = ref.conv_term(pat.subst_norm(res))
    except Exception as e:
        return 'bad', viol('inst-not-applicable', case, 'match succeeded with {%s} but applying it raises %s: %s; %s' % (show_inst(res), type(e).__name__, e, desc))
    try:
        a = ref.akey(ref.beta_eta_nf(got, 500))
        b = ref.akey(ref.beta_eta_nf(tgt_ref, 500))
    except ref.OutOfFuel:
        return 'undecided', None
    if a != b:
        return 'bad', viol('wrong-instance', case, 'match succeeded with {%s} but the instantiated pattern is %s: %s' % (
            show_inst(res), ref.show(got), desc))
    return 'ok', None


def run_pat(case):
    tier = _PATS['tier']
    pat = _PATS['list'][case[1]]
    try:
        Tp = ref.typeof(pat)
    except ref.IllTyped:
        return Outcome('pattern-illtyped')
    n_ok = n_fail = 0
    for tgt, sigma in targets(pat, tier):
        seeds = [{}]
        svs = svars_of(pat)
        if sigma is not None and svs:
            k = svs[0][1]
            if k in sigma:
                seeds.append({k: sigma[k]})
                other = [x for x in values(ref.typeof(sigma[k])) if x != sigma[k]] if safe(sigma[k]) else []
                if other:
                    seeds.append({k: other[0]})
        for seed in seeds:
            st, out = judge_match(pat, tgt, seed, sigma, case + [ref.show(tgt), sorted(seed)])
            if out is not None:
                return out
            if st == 'ok':
                n_ok += 1
            else:
                n_fail += 1
    return Outcome('pattern-done' if n_ok else 'pattern-never-matched', n_ok > 0, obs='%d:%d/%d' % (case[1], n_ok, n_fail))


def safe(t):
    try:
        ref.typeof(t)
        return True
    except ref.IllTyped:
        return False


def run_list(case):
    from kernel.term import Inst
    from logic import matcher
    p1, p2 = LIST_PATS[case[1]], LIST_PATS[case[2]]
    svs = []
    for a in svars_of(p1) + svars_of(p2):
        if a not in svs:
            svs.append(a)
    n_ok = 0
    for vals in itertools.product(*[values(a[2])[:3] for a in svs]):
        m = dict(zip(svs, vals))
        try:
            t1 = ref.beta_nf(ref.subst_free(p1, m), 200)
            t2 = ref.beta_nf(ref.subst_free(p2, m), 200)
        except ref.OutOfFuel:
            continue
        for order in ((0, 1), (1, 0)):
            ps = [p1, p2]
            ts = [t1, t2]
            ps = [ps[i] for i in order]
            ts = [ts[i] for i in order]
            try:
                res = matcher.first_order_match_list([ref.to_term(p) for p in ps], [ref.to_term(t) for t in ts], Inst())
            except matcher.MatchException:
                if is_fo(p1) and is_fo(p2):
                    return viol('list-incomplete', case, 'first_order_match_list fails on instances: %s ; %s' % (
                        [ref.show(p) for p in ps], [ref.show(t) for t in ts]))
                continue
            except Exception:
                continue
            for p, t in zip(ps, ts):
                try:
                    got = ref.conv_term(ref.to_term(p).subst_norm(res))
                    if ref.akey(ref.beta_eta_nf(got, 500)) != ref.akey(ref.beta_eta_nf(t, 500)):
                        return viol('list-wrong-instance', case, 'first_order_match_list %s ; %s returned {%s}, instantiated %s gives %s' % (
                            [ref.show(x) for x in ps], [ref.show(x) for x in ts], show_inst(res), ref.show(p), ref.show(got)))
                except ref.OutOfFuel:
                    pass
                except Exception as e:
                    return viol('list-inst-not-applicable', case, 'first_order_match_list %s ; %s returned {%s}; applying raises %s' % (
                        [ref.show(x) for x in ps], [ref.show(x) for x in ts], show_inst(res), e))
            n_ok += 1
    return Outcome('list-done', n_ok > 0, obs='L%d' % n_ok)


def run(case):
    if case[0] == 'pat':
        return run_pat(case)
    return run_list(case)
