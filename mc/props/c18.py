"""C18 — every accepted veriT (Alethe) step is a consequence of its premises.  E1: blind enumeration of (clause, premises)
tuples from a formula pool for every rule + guided instances with their 1-deviation near misses; oracle S (finite models)
and bounded arithmetic evaluation."""
import itertools
import os

from mc import ref, holsem, numeric
from mc.engine import Outcome, tier_param

ID = 'C18'
LEVEL = 'exploration'
WALL_S = 90.0
LINE_BUDGET = 150000000
RULE = ('for every registered veriT step rule R: (A) every clause of <=2 literals from a pool of formulas over atoms a, b, c, '
        'x = y, f x, p x, quantified p (connectives not/and/or/implies/iff/ite/xor, nested once) with every premise list of <=1 '
        'pool formulas (plain and under a hypothesis), every clause of <=3 literals and every premise pair from a reduced pool; '
        '(B) guided instances: for each rule family the correct instances over n-ary connectives (n <= 3), equality chains, congruences, '
        'resolution chains with clause sizes, linear-arithmetic clauses with Farkas coefficients, arithmetic simplifications, '
        'quantifier rules with their contexts, and the complete 1-deviation neighbourhood of each (a literal dropped / added / '
        'negated / two swapped; a premise component dropped / added; a coefficient perturbed; a clause size changed). Every tuple '
        'is given to macro.eval; whenever a theorem comes back it must follow from the premises: (hyps_i --> prem_i) for all i '
        'entails (hyps --> conclusion) in every finite model with carriers of size 1-2 (3 for equality chains), arithmetic clauses on a grid '
        'of integer / rational values, and the hypotheses must be among those of the premises. '
        'distinct_nontrivial = distinct accepted (rule, premises, conclusion) triples judged.')
ASSUMPTIONS = ['a countermodel found in a finite model / on the value grid is definitive; no countermodel up to the bound counts as consequence',
               'constants outside {connectives, =, quantifiers, if, xor, + - * numerals < <=} make a step undecided (counted, not judged)']


def bounds(tier):
    return tier_param(tier, {'pool': 'quick', 'clause_literals': 2, 'premises': 1, 'reduced_pool_clause_literals': 3, 'reduced_pool_premises': 2},
                      {'pool': 'full', 'clause_literals': 2, 'premises': 1, 'reduced_pool_clause_literals': 3, 'reduced_pool_premises': 2})


SPECIAL = {'verit_th_resolution', 'verit_refl', 'verit_bind', 'verit_sko_ex', 'verit_sko_forall', 'verit_onepoint', 'verit_la_generic',
           'verit_forall_inst', 'verit_subproof', 'verit_let'}

_P = {}
COUNTS = {}


def cnt(k, n=1):
    COUNTS[k] = COUNTS.get(k, 0) + n


def pools(tier):
    if tier in _P:
        return _P[tier]
    from kernel.term import Var, BoolType, And, Or, Not, Implies, Eq, Forall, Exists, true, false, Const
    from kernel.type import TFun, TVar
    from logic import logic
    Ta = TVar('a')
    a, b, c = Var('a', BoolType), Var('b', BoolType), Var('c', BoolType)
    x, y = Var('x', Ta), Var('y', Ta)
    f = Var('f', TFun(Ta, Ta))
    p = Var('p', TFun(Ta, BoolType))
    xor = lambda s, t: Const('xor', TFun(BoolType, BoolType, BoolType))(s, t)
    ite = lambda s, t, u: logic.mk_if(s, t, u)
    small = [a, b, Not(a), Not(b), And(a, b), Or(a, b), Implies(a, b), Eq(a, b), Not(And(a, b)), Not(Or(a, b)), Not(Implies(a, b)),
             Not(Eq(a, b)), true, false]
    quant = [Eq(Forall(x, p(x)), p(x)), Eq(Forall(x, p(x)), p(y)), Eq(Exists(x, p(x)), p(x)), Eq(Exists(x, a), a),
             Eq(Forall(x, Forall(y, p(x))), Forall(x, p(x))), Eq(Forall(x, Forall(y, p(x))), Forall(y, p(y))),
             Eq(Forall(x, p(x)), Forall(y, p(y))), Eq(Forall(x, Eq(x, y)), false), Eq(Forall(x, Implies(Eq(x, y), p(x))), p(y))]
    more = quant + [Not(Not(a)), Not(Not(Not(a))), ite(a, b, c), Not(ite(a, b, c)), xor(a, b), Not(xor(a, b)), Eq(x, y), Not(Eq(x, y)),
            Eq(f(x), f(y)), p(x), Not(p(x)), p(y), Forall(x, p(x)), Exists(x, p(x)), Not(Forall(x, p(x))), And(a, b, c), Or(a, b, c),
            Not(And(a, b, c)), Not(Or(a, b, c)), Implies(a, Implies(b, c)), c, Not(c), Eq(And(a, b), And(b, a)), Eq(Not(Not(a)), a),
            Eq(And(a, true), a), Eq(Or(a, false), a), Eq(Implies(a, b), Or(Not(a), b)), Eq(Eq(a, b), And(Implies(a, b), Implies(b, a))),
            Eq(ite(a, b, c), And(Implies(a, b), Implies(Not(a), c))), Eq(Not(true), false), Eq(Eq(x, x), true), Eq(And(a, a), a),
            Eq(Or(a, Not(a)), true), Eq(Implies(a, a), true), Eq(Eq(a, a), true), Eq(Forall(x, a), a), Eq(x, x), Eq(y, x)]
    full = small + more
    if tier == 'quick':
        full = small + more[:33]
    _P[tier] = (full, small)
    return _P[tier]


def rules():
    from kernel import theory
    return sorted(n for n in theory.global_macros if n.startswith('verit_') and n not in ('verit_imp_conj', 'verit_imp_disj',
                                                                                          'verit_norm_lia', 'verit_norm_lra', 'verit_round_lia'))


def arith_pool():
    """equations and clauses of the arithmetic simplification rules, right and wrong, at int and real"""
    if 'arith' in _P:
        return _P['arith']
    from kernel.term import Var, And, Or, Not, Eq, true, false
    from kernel import term as kt
    from kernel.type import IntType, RealType
    from logic import logic
    out = []
    for T in (IntType, RealType):
        x, y = Var('x', T), Var('y', T)
        n = lambda k: kt.Number(T, k)
        le, lt, ge, gt = kt.less_eq(T), kt.less(T), kt.greater_eq(T), kt.greater(T)
        out += [Eq(Eq(x, y), And(le(x, y), le(y, x))), Eq(Eq(x, y), And(le(x, y), lt(y, x))), Eq(Eq(x, y), le(x, y)),
                Or(Eq(x, y), Not(le(x, y)), Not(le(y, x))), Or(Eq(x, y), Not(le(x, y)), le(y, x)), Or(Eq(x, y), Not(le(x, y))),
                Eq(lt(x, x), false), Eq(le(x, x), true), Eq(le(x, x), false), Eq(lt(x, y), Not(le(y, x))), Eq(lt(x, y), Not(lt(y, x))),
                Eq(ge(x, y), le(y, x)), Eq(gt(x, y), lt(y, x)), Eq(gt(x, y), le(y, x)), Eq(lt(n(1), n(2)), true), Eq(lt(n(2), n(1)), true),
                Eq(le(n(2), n(2)), true), Eq(x + n(0), x), Eq(n(0) + x, x), Eq(x + n(1), x), Eq(n(1) + n(2), n(3)), Eq(n(1) + n(2), n(4)),
                Eq(n(0) * x, n(0)), Eq(n(1) * x, x), Eq(n(2) * x, x), Eq(x * n(0), n(0)), Eq(n(2) * n(3), n(6)), Eq(n(2) * n(3), n(5)),
                Eq(x - x, n(0)), Eq(x - n(0), x), Eq(n(0) - x, -x), Eq(x - y, y - x), Eq(n(3) - n(1), n(2)), Eq(n(3) - n(1), n(1)),
                Eq(-(-x), x), Eq(-x, x), Eq(-(n(1)), n(-1)), Eq(Eq(x, x), true), Eq(Eq(n(2), n(3)), false), Eq(Eq(n(2), n(2)), false),
                Eq(Not(Eq(x, x)), false), Eq(logic.mk_if(true, x, y), x), Eq(logic.mk_if(false, x, y), x), Eq(logic.mk_if(le(x, y), x, x), x),
                Eq(logic.mk_if(le(x, y), x, y), y)]
        if T == RealType:
            dv = lambda a, b: kt.Const('real_divide', kt.TFun(T, T, T))(a, b)
            out += [Eq(dv(x, n(1)), x), Eq(dv(x, x), n(1)), Eq(dv(n(6), n(3)), n(2)), Eq(dv(n(6), n(3)), n(3)), Eq(dv(x, n(2)), x),
                    Eq(dv(n(0), x), n(0)), Eq(dv(x, n(-1)), -x)]
    _P['arith'] = out
    return out


def bool_pool():
    """right and wrong equations of the boolean simplification / definition rules"""
    if 'bool' in _P:
        return _P['bool']
    from kernel.term import Var, BoolType, And, Or, Not, Implies, Eq, true, false, Const
    from kernel.type import TFun
    from logic import logic
    a, b, c = Var('a', BoolType), Var('b', BoolType), Var('c', BoolType)
    xor = lambda s, t: Const('xor', TFun(BoolType, BoolType, BoolType))(s, t)
    ite = logic.mk_if
    out = [Eq(And(a, Not(a)), false), Eq(And(a, Not(a)), true), Eq(Or(a, Not(a)), true), Eq(Or(a, Not(a)), false), Eq(Or(a, a), a), Eq(And(a, b), a),
           Eq(And(a, false), false), Eq(And(a, false), a), Eq(Or(a, true), true), Eq(Or(a, true), a), Eq(And(true, a), a), Eq(Or(false, a), a),
           Eq(And(a, b, a), And(a, b)), Eq(Or(a, b, a), Or(a, b)), Eq(And(a, b, a), And(b, b)),
           Eq(Implies(a, false), Not(a)), Eq(Implies(false, a), true), Eq(Implies(a, true), true), Eq(Implies(true, a), a), Eq(Implies(a, a), true),
           Eq(Implies(Not(a), Not(b)), Implies(b, a)), Eq(Implies(a, b), Implies(b, a)), Eq(Implies(a, false), a), Eq(Implies(false, a), a),
           Eq(Implies(Not(a), a), a), Eq(Implies(a, Not(a)), Not(a)), Eq(Implies(Implies(a, b), b), Or(a, b)), Eq(Implies(Implies(a, b), b), And(a, b)),
           Eq(Eq(a, true), a), Eq(Eq(a, false), Not(a)), Eq(Eq(a, Not(a)), false), Eq(Eq(Not(a), Not(b)), Eq(a, b)), Eq(Eq(a, b), Eq(b, a)), Eq(Eq(a, b), a),
           Eq(Eq(true, a), a), Eq(Eq(false, a), Not(a)), Eq(Eq(a, a), true), Eq(Eq(a, a), false), Eq(Eq(Not(a), a), false), Eq(Eq(a, false), a),
           Eq(Not(Implies(a, b)), And(a, Not(b))), Eq(Not(Or(a, b)), And(Not(a), Not(b))), Eq(Not(And(a, b)), Or(Not(a), Not(b))),
           Eq(Not(Or(a, b)), Or(Not(a), Not(b))), Eq(Not(And(a, b)), And(Not(a), Not(b))), Eq(Not(Implies(a, b)), And(Not(a), b)),
           Eq(Implies(a, Implies(b, c)), Implies(And(a, b), c)), Eq(Implies(a, Implies(b, c)), Implies(Or(a, b), c)),
           Eq(And(a, Implies(a, b)), And(a, b)), Eq(And(Implies(a, b), a), And(a, b)), Eq(And(a, Implies(a, b)), b),
           Eq(Not(Not(a)), a), Eq(Not(false), true), Eq(Not(true), false), Eq(Not(true), true), Eq(Not(Not(a)), Not(a)),
           Eq(ite(a, b, b), b), Eq(ite(Not(a), b, c), ite(a, c, b)), Eq(ite(a, true, false), a), Eq(ite(a, false, true), Not(a)),
           Eq(ite(a, true, c), Or(a, c)), Eq(ite(a, b, false), And(a, b)), Eq(ite(a, false, c), And(Not(a), c)), Eq(ite(a, b, true), Or(Not(a), b)),
           Eq(ite(a, b, false), Or(a, b)), Eq(ite(a, true, c), And(a, c)), Eq(ite(true, b, c), b), Eq(ite(false, b, c), c), Eq(ite(true, b, c), c),
           Eq(ite(a, ite(a, b, c), c), ite(a, b, c)), Eq(ite(a, b, ite(a, c, b)), b), Eq(ite(a, b, ite(a, c, b)), c),
           Eq(xor(a, b), Or(And(Not(a), b), And(a, Not(b)))), Eq(Eq(a, b), And(Implies(a, b), Implies(b, a))),
           Eq(ite(a, b, c), And(Implies(a, b), Implies(Not(a), c))), Eq(xor(a, b), Eq(a, b)), Eq(Eq(a, b), And(Implies(a, b), Implies(a, b))),
           Eq(ite(a, b, c), And(Implies(a, b), Implies(a, c)))]
    _P['bool'] = out
    return out


def cases(tier):
    yield ['arith', 1]
    for r in rules():
        if r in SPECIAL:
            continue
        for part in range(8):
            yield ['blind', r, part]
    yield ['arith', 0]
    for f in corpus_files():
        if tier == 'quick' and os.path.getsize(os.path.join(CORPUS, f)) > 4000:
            continue
        yield ['corpus', f]
    for fam, n in guided_families(tier):
        step = 40 if fam == 'resolution' else 4
        for i in range(0, n, step):
            yield ['guided', fam, i, min(i + step, n)]


# ------------------------------------------------------------------------------ judging

WHITELIST = {'equals', 'implies', 'all', 'exists', 'true', 'false', 'neg', 'conj', 'disj', 'IF', 'xor'}
ARITH = {'plus', 'minus', 'times', 'uminus', 'less', 'less_eq', 'greater', 'greater_eq', 'zero', 'one', 'of_nat', 'of_int', 'bit0', 'bit1',
         'real_divide', 'abs', 'max', 'min'}


def consts_of(t, acc):
    k = t[0]
    if k == 'c':
        acc.add(t[1])
    elif k == 'app':
        consts_of(t[1], acc)
        consts_of(t[2], acc)
    elif k == 'abs':
        consts_of(t[3], acc)
    return acc


def conj_ref(ts):
    B2 = ref.funs(ref.BOOL, ref.BOOL, ref.BOOL)
    if not ts:
        return ('c', 'true', ref.BOOL)
    out = ts[-1]
    for t in reversed(ts[:-1]):
        out = ('app', ('app', ('c', 'conj', B2), t), out)
    return out


def imp_ref(a, b):
    B2 = ref.funs(ref.BOOL, ref.BOOL, ref.BOOL)
    return ('app', ('app', ('c', 'implies', B2), a), b)


def show_thm(th):
    return (', '.join(str(h) for h in th.hyps) + ' |- ' if th.hyps else '|- ') + str(th.prop)


def judge(rule, args_desc, prevs, res, sizes=(1, 2), foreign_ok=False):
    """-> (class, violation or None)"""
    from kernel.thm import Thm
    if not isinstance(res, Thm):
        return 'not-a-theorem', None
    def v(kind, what):
        ad = args_desc() if callable(args_desc) else args_desc
        desc = '%s %s from [%s] gives %s' % (rule, ad, '; '.join(show_thm(p) for p in prevs), show_thm(res))
        return {'signature': '%s:%s' % (kind, desc), 'what': desc + ': ' + what}
    allowed = set()
    for p in prevs:
        allowed |= set(p.hyps)
    if not foreign_ok and not set(res.hyps) <= allowed:
        return 'FOREIGN-HYPS', v('foreign-hyps', 'the result carries hypotheses that are not hypotheses of a premise')
    try:
        hyps = [imp_ref(conj_ref([ref.conv_term(h) for h in p.hyps]), ref.conv_term(p.prop)) if p.hyps else ref.conv_term(p.prop) for p in prevs]
        concl = ref.conv_term(res.prop)
        if res.hyps:
            concl = imp_ref(conj_ref([ref.conv_term(h) for h in res.hyps]), concl)
    except Exception as e:
        return 'undecided', None
    cs = set()
    for t in hyps + [concl]:
        consts_of(t, cs)
    if cs <= WHITELIST:
        r = holsem.check_valid(hyps, concl, sizes=sizes, val_cap=300, work=200000)
        if r[0] == 'invalid':
            return 'NOT-A-CONSEQUENCE', v('not-a-consequence', 'countermodel %s' % (r[1],))
        if r[0] == 'valid':
            return 'consequence', None
    elif not cs <= WHITELIST | ARITH:
        return 'undecided', None
    # too large for enumeration, or arithmetic: independent quantifier-free encoding
    from mc import smtenc
    r = smtenc.refute(hyps, concl, timeout_ms=400)
    if r[0] == 'sat':
        return 'NOT-A-CONSEQUENCE', v('not-a-consequence', 'premises and negated conclusion have the model %s' % r[1])
    if r[0] == 'unsat':
        return 'consequence', None
    if cs <= WHITELIST | ARITH and not cs <= WHITELIST:
        # quantified arithmetic: bounded evaluation on a grid (only a falsifying valuation is definitive)
        from mc.props import c06
        goal = imp_ref(conj_ref(hyps), concl) if hyps else concl
        cm = None
        if ref.size(goal) <= 250:
            try:
                cm = c06.refute(goal, cap=300)
            except Exception:
                cm = None
        if cm is not None:
            return 'NOT-A-CONSEQUENCE', v('not-a-consequence', 'false for %s' % (cm,))
    return 'undecided', None


def try_eval(macro, args, prevs):
    import io
    try:
        return macro.eval(args, prevs)
    except RecursionError:
        return None
    except Exception:
        return None


def run_blind(case, tier):
    from kernel import theory
    from kernel.thm import Thm
    from kernel.term import Var, BoolType
    rule, part = case[1], case[2]
    macro = theory.get_macro(rule)
    full, small = pools(tier)
    H = Var('H', BoolType)
    prem1 = [[]] + [[Thm(t)] for t in full] + [[Thm(t, H)] for t in full]
    prem2 = [[Thm(s), Thm(t)] for s in small for t in small] + [[Thm(s, H), Thm(t)] for s in small[:8] for t in small[:8]]
    arg12 = [(s,) for s in full] + [(s, t) for s in full for t in full]
    arg3 = [(s, t, u) for s in small[:10] for t in small[:10] for u in small[:10]]
    arg01 = [()] + [(s,) for s in full]
    plans = [(arg12, prem1), (arg3, [[]] + [[Thm(t)] for t in small]), (arg01, prem2)]
    seen = set()
    n_acc = 0
    i = 0
    for argl, preml in plans:
        for args in argl:
            i += 1
            if i % 8 != part:
                continue
            for prevs in preml:
                res = try_eval(macro, args, prevs)
                cnt('pool: tuples given to eval')
                if res is None:
                    continue
                key = (res.prop, tuple(res.hyps), tuple((p.prop, tuple(p.hyps)) for p in prevs))
                if key in seen:
                    continue
                seen.add(key)
                cls, bad = judge(rule, (lambda args=args: '(%s)' % ', '.join(str(a) for a in args)), prevs, res)
                cnt('pool: accepted tuples judged ' + cls)
                if bad:
                    return Outcome(cls, violation=bad)
                if cls == 'consequence':
                    n_acc += 1
    return Outcome('accepted-all-consequences' if n_acc else 'nothing-accepted', n_acc > 0, obs='%s/%d:%d' % (rule, part, n_acc))


def run_arith(case, tier):
    """every rule on every one-literal clause of the arithmetic pool, without premises"""
    from kernel import theory
    n_acc = 0
    for rule in rules():
        if rule in SPECIAL:
            continue
        macro = theory.get_macro(rule)
        for t in (arith_pool() if case[1] == 0 else bool_pool()):
            res = try_eval(macro, (t,), [])
            cnt('%s pool: tuples given to eval' % ('arithmetic' if case[1] == 0 else 'boolean'))
            if res is None:
                continue
            cls, bad = judge(rule, (lambda t=t: '(%s)' % t), [], res)
            cnt('%s pool: accepted judged %s' % ('arithmetic' if case[1] == 0 else 'boolean', cls))
            if bad:
                return Outcome(cls, violation=bad)
            if cls == 'consequence':
                n_acc += 1
    return Outcome('accepted-all-consequences' if n_acc else 'nothing-accepted', n_acc > 0, obs='pool%d:%d' % (case[1], n_acc))


# ------------------------------------------------------------------------------ solver-produced steps and their near misses

CORPUS = os.path.join(os.path.dirname(os.path.dirname(os.path.dirname(os.path.abspath(__file__)))), 'corpus', 'verit')


def corpus_files():
    try:
        return sorted(f for f in os.listdir(CORPUS) if f.endswith('.proof.gz'))
    except OSError:
        return []


def guided_families(tier):
    return [('resolution', 41 * 41), ('la_generic', 140 if tier == 'quick' else 280)]


_GEN = {}


def res_clauses():
    if 'res' in _GEN:
        return _GEN['res']
    from kernel.term import Var, BoolType, Not
    A, B, C = (Var(n, BoolType) for n in 'ABC')
    lits = [A, Not(A), B, Not(B), C, Not(C)]
    cls = []
    for n in (1, 2, 3):
        for combo in itertools.combinations(lits, n):
            cls.append(tuple(combo))
    _GEN['res'] = (lits, cls)
    return _GEN['res']


def la_literals(T):
    """a * x (< | <=) c and their negations, a in {1, 2, 3, -1, -2}, c in {-3..3}"""
    key = ('la', T)
    if key in _GEN:
        return _GEN[key]
    from kernel.term import Var, Not
    from kernel import term as kt
    x = Var('x', T)
    num = lambda k: kt.Number(T, k)
    out = []
    for a in (1, 2, 3, -1, -2):
        for cst in range(-3, 4):
            lhs = x if a == 1 else num(a) * x
            for rel in (kt.less, kt.less_eq):
                t = rel(T)(lhs, num(cst))
                out.append(t)
                out.append(Not(t))
    _GEN[key] = out
    return out


def run_guided(case, tier):
    from kernel import theory
    from kernel.thm import Thm
    from kernel.term import Or, Not
    from kernel import term as kt
    from kernel.type import IntType, RealType
    fam, lo, hi = case[1], case[2], case[3]
    n_acc = 0
    seen = set()
    if fam == 'resolution':
        macro = theory.get_macro('verit_th_resolution')
        lits, cls = res_clauses()
        concls = [()] + [c for c in cls]
        for idx in range(lo, hi):
            c1, c2 = cls[idx // len(cls)], cls[idx % len(cls)]
            prevs = [Thm(Or(*c1)), Thm(Or(*c2))]
            sizes = (len(c1), len(c2))
            for cl in concls:
                res = try_eval(macro, (cl, sizes), prevs)
                cnt('guided resolution: tuples given to eval')
                if res is None:
                    continue
                key = (res.prop, c1, c2)
                if key in seen:
                    continue
                seen.add(key)
                cls_, bad = judge('verit_th_resolution', (lambda cl=cl, sizes=sizes: '([%s]; %s)' % (', '.join(map(str, cl)), list(sizes))), prevs, res)
                cnt('guided resolution: accepted judged ' + cls_)
                if bad:
                    return Outcome(cls_, violation=bad)
                if cls_ == 'consequence':
                    n_acc += 1
    elif fam == 'la_generic':
        macro = theory.get_macro('verit_la_generic')
        for T in (IntType, RealType):
            L = la_literals(T)
            num = lambda k: kt.Number(T, k)
            coeffs = [num(1), num(2), num(3)] + ([kt.Number(RealType, 1) / kt.Number(RealType, 2)] if T == RealType else [])
            for idx in range(lo, min(hi, len(L))):
                l1 = L[idx]
                for l2 in L:
                    for c1 in coeffs:
                        for c2 in coeffs:
                            res = try_eval(macro, (l1, l2, [c1, c2]), [])
                            cnt('guided la_generic: tuples given to eval')
                            if res is None:
                                continue
                            key = res.prop
                            if key in seen:
                                continue
                            seen.add(key)
                            cls_, bad = judge('verit_la_generic', (lambda l1=l1, l2=l2, c1=c1, c2=c2: '(%s; %s; [%s, %s])' % (l1, l2, c1, c2)), [], res)
                            cnt('guided la_generic: accepted judged ' + cls_)
                            if bad:
                                return Outcome(cls_, violation=bad)
                            if cls_ == 'consequence':
                                n_acc += 1
    return Outcome('accepted-all-consequences' if n_acc else 'nothing-accepted', n_acc > 0, obs='%s/%d:%d' % (fam, lo, n_acc))


def replay_file(fname):
    """-> list of (macro name, args, [premise theorems]) for every step of a stored solver proof (eval mode)"""
    import gzip
    from mc.engine import REPO
    from smt.veriT import proof_parser, proof_rec, command
    text = gzip.open(os.path.join(CORPUS, fname), 'rt').read()
    smt2 = os.path.join(REPO, 'smt/veriT/example', fname[:-len('.proof.gz')].replace('__', '/'))
    ctx = proof_rec.bind_var(smt2)
    parser = proof_parser.proof_parser(ctx)
    steps = [parser.parse(x) for x in text.replace('\r', '').split('\n') if x not in ('unsat', '')]
    recon = proof_rec.ProofReconstruction(steps, smt_assertions=set())
    out = []
    for st in steps:
        recon.validate_step(st, is_eval=True)
        if isinstance(st, command.Step):
            pt = recon.pts[st.id]
            out.append((pt.rule, pt.args, [q.th for q in pt.prevs]))
    return out


def flip(t):
    from kernel.term import Not
    return t.arg if t.is_not() else Not(t)


def near_misses(rule, args, prevs):
    """complete 1-deviation neighbourhood of one step: (tag, args, prevs)"""
    from kernel.term import Term, true, false, Or, And
    from kernel.thm import Thm
    args = tuple(args)
    if rule == 'verit_th_resolution':
        cl, sizes = args
        for i in range(len(cl)):
            yield 'conclusion literal %d dropped' % i, (cl[:i] + cl[i + 1:], sizes), prevs
            yield 'conclusion literal %d negated' % i, (cl[:i] + (flip(cl[i]),) + cl[i + 1:], sizes), prevs
        for i in range(len(sizes)):
            for d in (-1, 1):
                if sizes[i] + d >= 1:
                    yield 'clause size %d changed by %d' % (i, d), (cl, sizes[:i] + (sizes[i] + d,) + sizes[i + 1:]), prevs
        for i in range(len(prevs)):
            if len(prevs) > 1:
                yield 'premise %d dropped' % i, (cl, sizes[:i] + sizes[i + 1:]), prevs[:i] + prevs[i + 1:]
            pr = prevs[i]
            if pr.prop.is_disj():
                yield 'premise %d shortened' % i, (cl, sizes), prevs[:i] + [Thm(pr.prop.arg, *pr.hyps)] + prevs[i + 1:]
            yield 'premise %d negated' % i, (cl, sizes), prevs[:i] + [Thm(flip(pr.prop), *pr.hyps)] + prevs[i + 1:]
        return
    nlit = 0
    while nlit < len(args) and isinstance(args[nlit], Term):
        nlit += 1
    lits, rest = args[:nlit], args[nlit:]
    for i in range(nlit):
        if nlit > 1:
            yield 'literal %d dropped' % i, lits[:i] + lits[i + 1:] + rest, prevs
        yield 'literal %d negated' % i, lits[:i] + (flip(lits[i]),) + lits[i + 1:] + rest, prevs
        for j in range(i + 1, nlit):
            yield 'literals %d,%d swapped' % (i, j), lits[:i] + (lits[j],) + lits[i + 1:j] + (lits[i],) + lits[j + 1:] + rest, prevs
        # one step inside the literal: a component of the literal dropped / a side replaced
        t = lits[i]
        core = t.arg if t.is_not() else t
        wrap = (lambda u: flip(u)) if t.is_not() else (lambda u: u)
        if core.is_conj() or core.is_disj() or core.is_implies():
            yield 'literal %d: first component dropped' % i, lits[:i] + (wrap(core.arg),) + lits[i + 1:] + rest, prevs
            yield 'literal %d: last component dropped' % i, lits[:i] + (wrap(core.arg1),) + lits[i + 1:] + rest, prevs
        if core.is_equals():
            yield 'literal %d: sides swapped' % i, lits[:i] + (wrap(core.head(core.arg, core.arg1)),) + lits[i + 1:] + rest, prevs
            try:
                if core.arg1.get_type() == core.arg.get_type() and core.arg1 != core.arg:
                    yield 'literal %d: right side replaced by left' % i, lits[:i] + (wrap(core.head(core.arg1, core.arg1)),) + lits[i + 1:] + rest, prevs
                    if core.arg.is_comb() and core.arg1.is_comb() and core.arg.arg != core.arg1.arg and core.arg.fun.get_type() == core.arg1.fun.get_type():
                        yield 'literal %d: last argument of the right side taken from the left' % i, \
                            lits[:i] + (wrap(core.head(core.arg1, core.arg.fun(core.arg1.arg))),) + lits[i + 1:] + rest, prevs
            except Exception:
                pass
    if nlit:
        yield 'literal false added', lits + (false,) + rest, prevs
        yield 'first literal duplicated', (lits[0],) + lits + rest, prevs
    for i in range(len(prevs)):
        yield 'premise %d dropped' % i, args, prevs[:i] + prevs[i + 1:]
        pr = prevs[i]
        yield 'premise %d negated' % i, args, prevs[:i] + [Thm(flip(pr.prop), *pr.hyps)] + prevs[i + 1:]
        if pr.prop.is_disj() or pr.prop.is_conj():
            yield 'premise %d shortened' % i, args, prevs[:i] + [Thm(pr.prop.arg, *pr.hyps)] + prevs[i + 1:]
            yield 'premise %d shortened at the end' % i, args, prevs[:i] + [Thm(pr.prop.arg1, *pr.hyps)] + prevs[i + 1:]
        if pr.prop.is_equals():
            yield 'premise %d: sides swapped' % i, args, prevs[:i] + [Thm(pr.prop.head(pr.prop.arg, pr.prop.arg1), *pr.hyps)] + prevs[i + 1:]
        for j in range(i + 1, len(prevs)):
            yield 'premises %d,%d swapped' % (i, j), args, prevs[:i] + [prevs[j]] + prevs[i + 1:j] + [prevs[i]] + prevs[j + 1:]
    if rule == 'verit_la_generic' and rest and isinstance(rest[-1], (list, tuple)):
        from kernel import term as T
        coeffs = list(rest[-1])
        for i, cf in enumerate(coeffs):
            for tag, f in (('incremented', lambda u: u + 1), ('negated', lambda u: -u), ('doubled', lambda u: 2 * u), ('zeroed', lambda u: 0 * u)):
                try:
                    val = cf.dest_number()
                    new = T.Number(cf.get_type(), f(val))
                except Exception:
                    continue
                yield 'coefficient %d %s' % (i, tag), lits + rest[:-1] + (coeffs[:i] + [new] + coeffs[i + 1:],), prevs


def small_enough(args, prevs, cap):
    """total number of term nodes in the step is below cap (rejections print their arguments, which is slow for huge terms)"""
    n = 0
    stack = []
    for a in args:
        if isinstance(a, (tuple, list)):
            stack.extend(x for x in a if hasattr(x, 'is_comb'))
        elif hasattr(a, 'is_comb'):
            stack.append(a)
    for p in prevs:
        stack.append(p.prop)
    while stack:
        t = stack.pop()
        n += 1
        if n > cap:
            return False
        if t.is_comb():
            stack.append(t.fun)
            stack.append(t.arg)
        elif t.is_abs():
            stack.append(t.body)
    return True


def show_args(args):
    out = []
    for a in args:
        if isinstance(a, dict):
            out.append('{ctx %s}' % ', '.join('%s := %s' % kv for kv in sorted((str(k), str(v)) for k, v in a.items())))
        elif isinstance(a, (list, tuple)):
            out.append('[' + ', '.join(str(x) for x in a) + ']')
        else:
            out.append(str(a))
    return '(' + '; '.join(out) + ')'


def run_corpus(case, tier):
    import io
    import contextlib
    from kernel import theory
    fname = case[1]
    per_rule = 3 if tier == 'quick' else 60
    try:
        with contextlib.redirect_stdout(io.StringIO()):
            steps = replay_file(fname)
    except RecursionError:
        return Outcome('corpus-not-replayable')
    except Exception as e:
        return Outcome('corpus-not-replayable')
    count = {}
    seen = set()
    n_judged = 0
    n_skipped = 0
    for rule, args, prevs in steps:
        count[rule] = count.get(rule, 0) + 1
        if count[rule] > per_rule:
            continue
        try:
            macro = theory.get_macro(rule)
        except Exception:
            continue
        if not small_enough(args, prevs, 600 if tier == 'quick' else 3000):
            count[rule] -= 1
            n_skipped += 1
            continue
        todo = [('as produced by the solver', args, prevs)]
        try:
            todo += list(near_misses(rule, args, list(prevs)))
        except Exception:
            pass
        for tag, a, p in todo:
            with contextlib.redirect_stdout(io.StringIO()):
                res = try_eval(macro, a, p)
            cnt('corpus: tuples given to eval')
            if res is None:
                continue
            key = (rule, res.prop, tuple(res.hyps), tuple((q.prop, tuple(q.hyps)) for q in p))
            if key in seen:
                continue
            seen.add(key)
            has_ctx = any(isinstance(x, dict) for x in a) or rule in ('verit_subproof', 'verit_let', 'verit_bind', 'verit_sko_ex', 'verit_sko_forall', 'verit_onepoint')
            cls, bad = judge(rule, (lambda a=a, tag=tag: show_args(a) + ' [' + tag + ', ' + fname[:-len('.proof.gz')] + ']'), p, res, foreign_ok=has_ctx)
            kind = 'solver steps' if tag == 'as produced by the solver' else 'near misses'
            cnt('corpus: accepted %s judged %s' % (kind, cls))
            cnt('rule %s: accepted %s judged %s' % (rule[6:], kind, cls))
            if bad:
                return Outcome(cls, violation=bad)
            if cls == 'consequence':
                n_judged += 1
    return Outcome('accepted-all-consequences' if n_judged else 'nothing-judged', n_judged > 0, obs='%s:%d' % (fname[:40], n_judged))


_TIER = ['quick']


def setup(tier):
    _TIER[0] = tier
    from logic import basic
    from data import nat, integer, real, proplogic  # noqa
    from logic import logic, auto  # noqa
    from smt.veriT import verit_macro, la_generic  # noqa
    basic.load_theory('verit')


def run(case):
    if case[0] == 'blind':
        return run_blind(case, _TIER[0])
    if case[0] == 'corpus':
        return run_corpus(case, _TIER[0])
    if case[0] == 'arith':
        return run_arith(case, _TIER[0])
    return run_guided(case, _TIER[0])
