"""C12 — loading a theory depends only on the library files, not on process history.

E2 over loader histories with fault injection: a state is the history of loader events (loads with
and without limit, file edits with later / earlier modification times, loads interrupted by an
injected parse fault, creation and removal of an import cycle) executed on the real loader over a
scratch library; after every successful load in the history the theory state must equal the state a
history-free loader produces from the files as they are at that moment.  A second family runs
histories over the real library in fresh interpreter processes (modules whose import loads a theory).
"""
import itertools
import json
import os
import shutil
import subprocess
import sys
import tempfile

from mc.engine import Outcome, tier_param, VERIF, REPO, PY

ID = 'C12'
LEVEL = 'model_checking'
RULE = ('all histories of <=L loader events over a 5-theory scratch library (a <- b <- {c,d} <- e): load(T), load(T, limit first / '
        'middle / missing / start), edit(T) with later or EARLIER mtime, load(T) interrupted by a fault at the first / last parsed '
        'item, cycle on/off, reimport(T) = the file rewritten with a different import list; after every load that returns, the dump of theory.thy (types, constants, theorems, attributes, '
        'overloads) is compared with the dump of a history-free load of the same files; loads that must fail (cycle, missing limit) '
        'must raise. Real library: [import M; load T] and [load T; load T] histories in fresh processes vs a fresh [load T]. '
        'states = histories executed, transitions = events executed.')
ASSUMPTIONS = ['history-free reference = same loader with its module-level caches (theory_cache, item_index) emptied; the first '
               'references of every worker are cross-checked against a truly fresh interpreter process',
               'edits that keep the modification time unchanged are outside the statement (the loader decides by mtime)']

THEORIES = ['a', 'b', 'c', 'd', 'e']
IMPORTS = {'a': [], 'b': ['a'], 'c': ['b'], 'd': ['b'], 'e': ['c', 'd']}
# 'reimport' events rewrite a file with another import list (no cycle): c loses b (its item c_imp mentions c_b), e loses d
ALT_IMPORTS = {'c': ['a'], 'e': ['c']}


def bounds(tier):
    return tier_param(tier, {'history_len': 3, 'real_library_histories': 10}, {'history_len': 4, 'real_library_histories': 40})


def content(T, version):
    items = [
        {'ty': 'def.ax', 'name': 'c_%s' % T, 'type': 'bool'},
        {'ty': 'thm.ax', 'name': '%s_ax1' % T, 'prop': 'c_%s ⟶ c_%s' % (T, T), 'vars': {}},
        {'ty': 'def.ax', 'name': 'f_%s' % T, 'type': "'a ⇒ bool"},
        {'ty': 'thm.ax', 'name': '%s_ax2' % T, 'prop': 'f_%s x ⟶ c_%s' % (T, T), 'vars': {'x': "'a"}, 'attributes': ['hint_backward']},
        {'ty': 'thm.ax', 'name': '%s_ax3' % T, 'prop': 'c_%s' % T, 'vars': {}},
    ]
    if T != 'a':
        # uses a constant of an imported theory
        items.insert(3, {'ty': 'thm.ax', 'name': '%s_imp' % T, 'prop': 'c_%s ⟶ c_%s' % (IMPORTS[T][0], T), 'vars': {}})
    if T == 'e':
        items.insert(4, {'ty': 'thm.ax', 'name': 'e_imp_d', 'prop': 'c_d ⟶ c_e', 'vars': {}})
    if version == 1:
        items.insert(2, {'ty': 'def.ax', 'name': 'new_%s' % T, 'type': 'bool ⇒ bool'})
        items.append({'ty': 'thm.ax', 'name': '%s_new_ax' % T, 'prop': 'new_%s c_%s' % (T, T), 'vars': {}})
    return items


class Library:
    """scratch library on disk + the file state"""

    def __init__(self):
        self.root = tempfile.mkdtemp(prefix='c12lib-', dir=os.path.join(VERIF, 'out', 'tmp'))
        os.makedirs(os.path.join(self.root, 'library'))
        os.makedirs(os.path.join(self.root, 'logic'))
        self.version = {T: 0 for T in THEORIES}
        self.mtime = {T: 1000000000 + 100 * i for i, T in enumerate(THEORIES)}
        self.cycle = False
        self.alt = {T: False for T in ALT_IMPORTS}
        for T in THEORIES:
            self.write(T)

    def path(self, T):
        return os.path.join(self.root, 'library', T + '.json')

    def write(self, T):
        imports = list(IMPORTS[T])
        if self.alt.get(T):
            imports = list(ALT_IMPORTS[T])
        if self.cycle and T == 'a':
            imports = ['e']
        data = {'name': T, 'description': 'scratch', 'imports': imports, 'content': content(T, self.version[T])}
        with open(self.path(T), 'w', encoding='utf-8') as f:
            json.dump(data, f, ensure_ascii=False)
        os.utime(self.path(T), (self.mtime[T], self.mtime[T]))

    def state_key(self):
        return (tuple(sorted(self.version.items())), self.cycle, tuple(sorted(self.alt.items())))

    def remove(self):
        shutil.rmtree(self.root, ignore_errors=True)


def point_loader_at(lib):
    from logic import basic
    basic.dirname = os.path.join(lib.root, 'logic')


def reset_loader():
    from logic import basic
    from kernel import theory
    basic.theory_cache.clear()
    basic.item_index.clear()
    theory.thy = None


def dump_theory():
    from kernel import theory
    from mc import ref
    thy = theory.thy
    if thy is None:
        return None
    d = {}
    d['type_sig'] = sorted(thy.get_data('type_sig').items())
    d['term_sig'] = sorted((k, ref.show_type(ref.conv_type(T))) for k, T in thy.get_data('term_sig').items())
    ths = []
    for k, th in thy.get_data('theorems').items():
        r = ref.conv_thm(th)
        ths.append((k, sorted(ref.show(h) for h in r[0]), ref.show(r[1])))
    d['theorems'] = sorted(ths)
    d['attributes'] = sorted((k, list(v)) for k, v in thy.get_data('attributes').items())
    d['overload'] = sorted(thy.get_data('overload').keys())
    return json.dumps(d, sort_keys=True)


def limit_of(T, which, version):
    items = content(T, version)
    if which == 'first':
        it = items[0]
    elif which == 'mid':
        it = items[len(items) // 2]
    elif which == 'missing':
        return ('thm.ax', 'no_such_item')
    return (it['ty'], it['name'])


def do_load(T, which, lib):
    """returns ('ok', dump) | ('err', exception name)"""
    from logic import basic
    try:
        if which is None:
            basic.load_theory(T)
        elif which == 'start':
            basic.load_theory(T, limit='start')
        else:
            basic.load_theory(T, limit=limit_of(T, which, lib.version[T]))
    except RecursionError:
        return ('err', 'RecursionError')
    except Exception as e:
        return ('err', type(e).__name__)
    return ('ok', dump_theory())


_REF = {}
_XCHECK = [0]


def reference(T, which, lib):
    """history-free result for the current files"""
    key = (lib.state_key(), T, which)
    if key in _REF:
        return _REF[key]
    from logic import basic
    from kernel import theory
    saved = (dict(basic.theory_cache), dict(basic.item_index), theory.thy)
    reset_loader()
    res = do_load(T, which, lib)
    basic.theory_cache.clear()
    basic.theory_cache.update(saved[0])
    basic.item_index.clear()
    basic.item_index.update(saved[1])
    theory.thy = saved[2]
    if _XCHECK[0] < 12:
        _XCHECK[0] += 1
        sub = subprocess_reference(T, which, lib)
        if sub != res:
            raise RuntimeError('in-process history-free reference disagrees with a fresh process: %r vs %r' % (res, sub))
    _REF[key] = res
    return res


def subprocess_reference(T, which, lib):
    code = ("import sys, json\nsys.path.insert(0, %r)\nsys.path.insert(0, %r)\nfrom mc.props import c12\nfrom mc.engine import import_holpy\n"
            "import_holpy()\nlib = c12.Library.__new__(c12.Library)\nlib.root = %r\nlib.version = %r\nlib.cycle = %r\n"
            "c12.point_loader_at(lib)\nprint('RES' + json.dumps(c12.do_load(%r, %r, lib)))\n") % (
        VERIF, REPO, lib.root, lib.version, lib.cycle, T, which)
    out = subprocess.run([PY, '-W', 'ignore', '-c', code], capture_output=True, text=True, timeout=120)
    for line in out.stdout.splitlines():
        if line.startswith('RES'):
            return tuple(json.loads(line[3:]))
    raise RuntimeError('reference subprocess failed: ' + out.stderr[-500:])


# ------------------------------------------------------------------------------ events

def menu():
    evs = []
    for T in ('a', 'b', 'c', 'e'):
        evs.append(('load', T, None))
    for T in ('b', 'e'):
        for w in ('first', 'mid', 'missing'):
            evs.append(('load', T, w))
    evs.append(('load', 'e', 'start'))
    for T in ('a', 'b', 'e'):
        evs.append(('edit_later', T))
        evs.append(('edit_earlier', T))
    for T in ('b', 'e'):
        for k in ('first', 'last'):
            evs.append(('fault', T, k))
    evs.append(('cycle_on',))
    evs.append(('cycle_off',))
    for T in ('c', 'e'):
        evs.append(('reimport', T))
    return evs


def apply_event(ev, lib):
    """returns None or a violation message"""
    from server import items
    k = ev[0]
    if k == 'load':
        res = do_load(ev[1], ev[2], lib)
        ref_ = reference(ev[1], ev[2], lib)
        if res[0] == 'ok':
            if ref_[0] != 'ok':
                return 'load(%s, limit=%s) succeeds, but a history-free load of the same files fails with %s' % (ev[1], ev[2], ref_[1])
            if res[1] != ref_[1]:
                return 'load(%s, limit=%s) yields a theory that differs from a history-free load of the same files: %s' % (
                    ev[1], ev[2], diff_dump(res[1], ref_[1]))
        else:
            if ref_[0] == 'ok':
                return 'load(%s, limit=%s) fails with %s, but a history-free load of the same files succeeds' % (ev[1], ev[2], res[1])
            if res[1] == 'RecursionError':
                return 'load(%s, limit=%s) fails with RecursionError instead of reporting the error' % (ev[1], ev[2])
        return None
    if k in ('edit_later', 'edit_earlier'):
        T = ev[1]
        lib.version[T] = 1 - lib.version[T]
        lib.mtime[T] += 10 if k == 'edit_later' else -7
        lib.write(T)
        return None
    if k == 'fault':
        T, which = ev[1], ev[2]
        n_items = len(content(T, lib.version[T]))
        target = 1 if which == 'first' else n_items
        count = [0]
        orig = items.parse_item

        class InjectedFault(Exception):
            pass

        def faulty(data):
            nm = data.get('name', '')
            if nm.endswith('_' + T) or nm.startswith(T + '_'):
                count[0] += 1
                if count[0] == target:
                    raise InjectedFault()
            return orig(data)
        items.parse_item = faulty
        try:
            do_load(T, None, lib)
        finally:
            items.parse_item = orig
        return None
    if k == 'reimport':
        T = ev[1]
        lib.alt[T] = not lib.alt[T]
        lib.mtime[T] += 10
        lib.write(T)
        return None
    if k == 'cycle_on':
        lib.cycle = True
        lib.mtime['a'] += 10
        lib.write('a')
        return None
    if k == 'cycle_off':
        lib.cycle = False
        lib.mtime['a'] += 10
        lib.write('a')
        return None
    raise ValueError(ev)


def diff_dump(a, b):
    da, db = json.loads(a), json.loads(b)
    out = []
    for key in da:
        sa, sb = set(map(json.dumps, da[key])), set(map(json.dumps, db[key]))
        if sa != sb:
            out.append('%s: only after this history %s; only history-free %s' % (key, sorted(sa - sb)[:4], sorted(sb - sa)[:4]))
    return '; '.join(out)[:600]


def run_history(hist):
    lib = Library()
    try:
        point_loader_at(lib)
        reset_loader()
        for i, ev in enumerate(hist):
            msg = apply_event(ev, lib)
            if msg:
                return Outcome('HISTORY-DEPENDENT', violation={
                    'signature': 'hist:' + repr(hist[:i + 1]), 'what': 'after the history %r: %s' % (list(hist[:i]), msg)})
        # final probes
        for probe in (('load', 'e', None), ('load', 'b', 'mid')):
            msg = apply_event(probe, lib)
            if msg:
                return Outcome('HISTORY-DEPENDENT', violation={
                    'signature': 'hist:' + repr(list(hist) + [probe]), 'what': 'after the history %r: %s' % (list(hist), msg)})
        return Outcome('history-ok', True)
    finally:
        lib.remove()


# ------------------------------------------------------------------------------ real library

REAL_MODULES = ['data.integer', 'data.real', 'prover.omega', 'prover.simplex', 'prover.proofrec', 'integral.proof']
REAL_THEORIES = ['logic_base', 'nat', 'set', 'int', 'real', 'realintegral', 'prime', 'hoare']


def real_cases(tier):
    n = bounds(tier)['real_library_histories']
    cs = []
    for T in REAL_THEORIES:
        cs.append(['real', ['load:' + T, 'load:' + T], T])
    for M in REAL_MODULES:
        for T in REAL_THEORIES[1:6]:
            cs.append(['real', ['import:' + M], T])
    for T1 in ('int', 'real', 'hoare'):
        for T2 in ('nat', 'realintegral', 'set'):
            cs.append(['real', ['load:' + T1], T2])
    return cs[:n] if tier == 'quick' else cs


REAL_CODE = r'''
import sys, json, types
sys.path.insert(0, %(verif)r); sys.path.insert(0, %(repo)r)
from mc.engine import import_holpy
import_holpy()
import io, contextlib
from mc.props import c12
res = []
with contextlib.redirect_stdout(io.StringIO()):
    for step in %(steps)r:
        kind, arg = step.split(':')
        try:
            if kind == 'import':
                __import__(arg)
            else:
                from logic import basic
                basic.load_theory(arg)
            res.append('ok')
        except Exception as e:
            res.append(type(e).__name__ + ': ' + str(getattr(e, 'str', e))[:80])
import hashlib
d = c12.dump_theory()
sys.stdout.write('RES' + json.dumps([res, hashlib.sha256((d or '').encode()).hexdigest(), len(d or '')]) + '\n')
'''


def run_real_steps(steps):
    code = REAL_CODE % {'verif': VERIF, 'repo': REPO, 'steps': steps}
    env = dict(os.environ)
    env['PYTHONHASHSEED'] = '0'
    out = subprocess.run([PY, '-W', 'ignore', '-c', code], capture_output=True, text=True, timeout=600, env=env)
    for line in out.stdout.splitlines():
        if line.startswith('RES'):
            return json.loads(line[3:])
    return [['harness-failure: ' + out.stderr[-300:]], '', 0]


_REALREF = {}


def run_real(case):
    hist, probe = case[1], case[2]
    if probe not in _REALREF:
        _REALREF[probe] = run_real_steps(['load:' + probe])
    ref_ = _REALREF[probe]
    got = run_real_steps(list(hist) + ['load:' + probe])
    if ref_[0][-1].startswith('harness') or got[0][-1].startswith('harness'):
        return Outcome('real-harness-failure')
    if got[0][-1] != 'ok' and ref_[0][-1] == 'ok':
        return Outcome('REAL-HISTORY-DEPENDENT', violation={
            'signature': 'real:' + repr(case), 'what': 'real library: after %r, load_theory(%r) fails with %s, while it succeeds in a fresh process' % (hist, probe, got[0][-1])})
    if got[0][-1] == 'ok' and ref_[0][-1] != 'ok':
        return Outcome('REAL-HISTORY-DEPENDENT', violation={
            'signature': 'real:' + repr(case), 'what': 'real library: load_theory(%r) fails in a fresh process with %s but succeeds after the history %r' % (probe, ref_[0][-1], hist)})
    if got[0][-1] == 'ok' and got[1] != ref_[1]:
        return Outcome('REAL-HISTORY-DEPENDENT', violation={
            'signature': 'real:' + repr(case), 'what': 'real library: after %r, load_theory(%r) yields a different theory than in a fresh process (dump sizes %d vs %d)' % (hist, probe, got[2], ref_[2])})
    return Outcome('real-ok', True)


# ------------------------------------------------------------------------------ exploration

def setup(tier):
    os.makedirs(os.path.join(VERIF, 'out', 'tmp'), exist_ok=True)
    from logic import basic  # noqa


def explore(tier, shard, nshards, agg):
    L = bounds(tier)['history_len']
    evs = menu()
    k = 0
    for n in range(1, L + 1):
        for hist in itertools.product(evs, repeat=n):
            k += 1
            if k % nshards != shard:
                continue
            out = run_history(hist)
            agg.states += 1
            agg.transitions += len(hist) + 2
            need = out.violation is not None or len(agg.samples.get(out.cls, ())) < 2
            agg.add([list(e) for e in hist] if need else None, out)
    # the loader must be pointed back at the real library for the second family
    for i, case in enumerate(real_cases(tier)):
        if i % nshards != shard:
            continue
        out = run_real(case)
        agg.states += 1
        agg.transitions += len(case[1]) + 1
        agg.add(case, out)


def replay(case):
    from mc.engine import import_holpy
    import_holpy()
    if case and case[0] == 'real':
        out = run_real(case)
    else:
        out = run_history([tuple(e) for e in case])
    print('outcome:', out.cls)
    if out.violation:
        print(out.violation['what'])
        print('VIOLATION property=C12 replay=(this file)')
        return 1
    return 0
