"""C10 — conversions prove equations about the given term; normal forms are canonical.  E1, oracles R + N + S."""
import itertools
from fractions import Fraction

from mc import ref, holsem
from mc.engine import Outcome, tier_param

ID = 'C10'
LEVEL = 'exploration'
WALL_S = 60.0
LINE_BUDGET = 200000000
RULE = ('arithmetic normalisers (nat.norm_full, integer.int_norm_conv, real.real_norm_conv) on every expression with <=2 (thorough 3) '
        'binary operators over two variables and small numerals plus every bracketing of four-factor products, grouped by their polynomial (own dict-of-monomials normal form): '
        'within a group all normal forms must be identical and normalising a normal form changes nothing; propositional normalisers '
        '(nnf_conv, proplogic.norm_full, sort_conj, sort_disj, logic.conj_norm, logic.disj_norm) on every formula with <=3 connectives '
        'resp. every conjunction/disjunction tree with <=4 leaves, grouped by their set of members; traversal combinators '
        '(top_conv, bottom_conv, top_sweep_conv, abs_conv, repeat_conv, try_conv, then/else) with rewr_conv of an assumed equation, '
        'beta_conv and eta_conv on every lambda-term of size <=6 plus binders %x. g x x, %x. g (f x) x alone and under applications. Every returned proof term: equation with left side = the input, '
        'hypotheses among the supplied conditions, exported proof accepted by the kernel with the same sequent, eval agrees, and the '
        'equation is valid in finite models. distinct_nontrivial = distinct (conversion, term) pairs that returned an equation.')
ASSUMPTIONS = ['own polynomial normal form over N / Z / Q; mc/ref.py, mc/holsem.py']


def bounds(tier):
    return tier_param(tier, {'arith_ops': 2, 'prop_connectives': 2, 'trees_leaves': 4, 'lambda_size': 5},
                      {'arith_ops': 3, 'prop_connectives': 3, 'trees_leaves': 4, 'lambda_size': 6})


# ------------------------------------------------------------------------------ arithmetic expressions
# AST: ('v', name) | ('n', k) | ('half',) | (op, a, b) | ('neg', a) | ('suc', a) | ('sq', a)

def arith_exprs(kind, nops):
    leaves = {'nat': [('v', 'x'), ('v', 'y'), ('n', 0), ('n', 1), ('n', 2), ('n', 3)],
              'int': [('v', 'x'), ('v', 'y'), ('n', 0), ('n', 1), ('n', 2)],
              'real': [('v', 'x'), ('v', 'y'), ('n', 0), ('n', 1), ('n', 2), ('half',)]}[kind]
    bops = {'nat': ['+', '*'], 'int': ['+', '-', '*'], 'real': ['+', '-', '*']}[kind]
    uops = {'nat': ['suc'], 'int': ['neg'], 'real': ['neg', 'sq']}[kind]
    by = {0: list(leaves)}
    for n in range(1, nops + 1):
        cur = []
        for k in range(n):
            for a in by[k]:
                for b in by[n - 1 - k]:
                    for o in bops:
                        cur.append((o, a, b))
        for a in by[n - 1]:
            for u in uops:
                cur.append((u, a))
        by[n] = cur
    out = []
    for n in range(nops + 1):
        out.extend(by[n])
    return out


def product_trees():
    """all products with four factors from {x, y, 2}, every bracketing (monomials whose right factor has three atoms)"""
    leaves = [('v', 'x'), ('v', 'y'), ('n', 2)]

    def shapes(n):
        if n == 1:
            for l in leaves:
                yield l
            return
        for k in range(1, n):
            for a in shapes(k):
                for b in shapes(n - k):
                    yield ('*', a, b)
    return list(shapes(4))


def poly(e):
    """dict monomial(tuple of sorted var names) -> Fraction"""
    k = e[0]
    if k == 'v':
        return {(e[1],): Fraction(1)}
    if k == 'n':
        return {(): Fraction(e[1])} if e[1] else {}
    if k == 'half':
        return {(): Fraction(1, 2)}
    if k == 'suc':
        return padd(poly(e[1]), {(): Fraction(1)})
    if k == 'neg':
        return {m: -c for m, c in poly(e[1]).items()}
    if k == 'sq':
        p = poly(e[1])
        return pmul(p, p)
    a, b = poly(e[1]), poly(e[2])
    if k == '+':
        return padd(a, b)
    if k == '-':
        return padd(a, {m: -c for m, c in b.items()})
    return pmul(a, b)


def padd(a, b):
    r = dict(a)
    for m, c in b.items():
        r[m] = r.get(m, 0) + c
        if r[m] == 0:
            del r[m]
    return r


def pmul(a, b):
    r = {}
    for m1, c1 in a.items():
        for m2, c2 in b.items():
            m = tuple(sorted(m1 + m2))
            r[m] = r.get(m, 0) + c1 * c2
            if r[m] == 0:
                del r[m]
    return r


def pkey(p):
    return tuple(sorted((m, str(c)) for m, c in p.items()))


def to_hol(kind, e):
    from kernel import term
    from kernel.term import Var, Nat, Int, Real, Const
    from kernel.type import NatType, IntType, RealType, TFun
    hi = kind.endswith('H')
    if hi:
        kind = kind[:-1]
    T = {'nat': NatType, 'int': IntType, 'real': RealType}[kind]
    N = {'nat': Nat, 'int': Int, 'real': Real}[kind]
    k = e[0]
    if k == 'v' and hi:
        from kernel.term import Abs, Bound
        proj = Abs('u', T, Abs('v', T, Bound(1 if e[1] == 'x' else 0)))
        return Var('F', TFun(TFun(T, TFun(T, T)), T))(proj)
    if hi and k not in ('n', 'half'):
        kind = kind + 'H'
    if k == 'v':
        return Var(e[1], T)
    if k == 'n':
        return N(e[1])
    if k == 'half':
        return Real(1) / Real(2)
    if k == 'suc':
        return Const('Suc', TFun(NatType, NatType))(to_hol(kind, e[1]))
    if k == 'neg':
        return term.uminus(T)(to_hol(kind, e[1]))
    if k == 'sq':
        return term.nat_power(T)(to_hol(kind, e[1]), Nat(2))
    a, b = to_hol(kind, e[1]), to_hol(kind, e[2])
    return {'+': term.plus, '-': term.minus, '*': term.times}[k](T)(a, b)


# ------------------------------------------------------------------------------ propositional formulas

def prop_formulas(n):
    atoms = [('a', 'A'), ('a', 'B'), ('t',), ('f',)]
    by = {0: atoms}
    for k in range(1, n + 1):
        cur = [('not', f) for f in by[k - 1]]
        for i in range(k):
            for f in by[i]:
                for g in by[k - 1 - i]:
                    for o in ('and', 'or', 'imp', 'iff'):
                        cur.append((o, f, g))
        by[k] = cur
    out = []
    for k in range(n + 1):
        out.extend(by[k])
    return out


def trees(op, nleaves):
    atoms = [('a', 'A'), ('a', 'B'), ('a', 'C')]
    by = {1: atoms}
    for n in range(2, nleaves + 1):
        cur = []
        for i in range(1, n):
            for f in by[i]:
                for g in by[n - i]:
                    cur.append((op, f, g))
        by[n] = cur
    out = []
    for n in range(1, nleaves + 1):
        out.extend(by[n])
    return out


def members(t, op):
    if t[0] == op:
        return members(t[1], op) | members(t[2], op)
    return frozenset([t])


def prop_hol(f):
    from kernel.term import Var, And, Or, Not, Implies, Eq, true, false
    from kernel.type import BoolType
    k = f[0]
    if k == 'a':
        return Var(f[1], BoolType)
    if k == 't':
        return true
    if k == 'f':
        return false
    if k == 'not':
        return Not(prop_hol(f[1]))
    a, b = prop_hol(f[1]), prop_hol(f[2])
    return {'and': And, 'or': Or, 'imp': Implies, 'iff': Eq}[k](a, b)


# ------------------------------------------------------------------------------ cases

_G = {}


def groups(tier):
    if tier in _G:
        return _G[tier]
    b = bounds(tier)
    out = []
    for kind in ('nat', 'int', 'real'):
        gs = {}
        es = arith_exprs(kind, b['arith_ops'])
        if b['arith_ops'] < 3:
            es = es + product_trees()
        for e in es:
            gs.setdefault(pkey(poly(e)), []).append(e)
        for key, ms in sorted(gs.items(), key=lambda kv: repr(kv[0])):
            # big groups are split; the first member is repeated so that the pieces stay comparable
            for i in range(0, len(ms), 60):
                out.append(['arith', kind, [ms[0]] + ms[i:i + 60]])
    # the same small expressions over compound atoms that differ only in a bound-variable index:
    # x := F (%u v. u), y := F (%u v. v)   (the term order must still separate them)
    for kind in ('natH', 'realH'):
        gs = {}
        for e in arith_exprs(kind[:-1], 1) + product_trees():
            gs.setdefault(pkey(poly(e)), []).append(e)
        for key, ms in sorted(gs.items(), key=lambda kv: repr(kv[0])):
            for i in range(0, len(ms), 60):
                out.append(['arith', kind, [ms[0]] + ms[i:i + 60]])
    for op in ('and', 'or'):
        gs = {}
        for t in trees(op, b['trees_leaves']):
            gs.setdefault(members(t, op), []).append(t)
        for key, ms in sorted(gs.items(), key=lambda kv: repr(sorted(kv[0]))):
            out.append(['tree', op, ms])
    fs = prop_formulas(b['prop_connectives'])
    for i in range(0, len(fs), 40):
        out.append(['prop', fs[i:i + 40]])
    _G[tier] = out
    return out


def lambda_terms(tier):
    from mc import gen
    from mc.ref import fun, funs
    A = ('tv', 'a')
    atoms = [('v', 'c', A), ('v', 'x', A), ('v', 'f', fun(A, A)), ('v', 'g', funs(A, A, A))]
    g = gen.TermGen(atoms, [A], names=('x', 'y'))
    out = []
    for n in range(1, bounds(tier)['lambda_size'] + 1):
        out.extend(t for t, T in g.gen(n))
    # abstractions whose body applies a function part that itself mentions the bound variable (not eta redexes)
    fv, gv, cv, xv = atoms[2], atoms[3], atoms[0], atoms[1]
    B0 = ('b', 0)
    ap = lambda h, *a: __import__('functools').reduce(lambda u, w: ('app', u, w), a, h)
    extra = [('abs', 'x', A, ap(gv, B0, B0)), ('abs', 'x', A, ap(gv, ap(fv, B0), B0)), ('abs', 'y', A, ap(gv, xv, B0)),
             ('abs', 'x', A, ap(gv, cv, B0))]
    extra += [ap(fv, ap(e, cv)) for e in extra] + [ap(gv, cv, ap(e, xv)) for e in extra]
    out.extend(e for e in extra if e not in out)
    return out


def cases(tier):
    for i in range(len(groups(tier))):
        yield ['group', i]
    ts = lambda_terms(tier)
    for i in range(0, len(ts), 25):
        yield ['trav', i, min(i + 25, len(ts))]


# ------------------------------------------------------------------------------ judging

def viol(kind, case, what):
    return Outcome(kind.upper(), violation={'signature': kind + ':' + repr(case), 'what': what})


def judge_conv(cv, cvname, t, allowed_hyps, case, semantic=True):
    """returns (rhs ref term or None, Outcome or None)"""
    from kernel import theory, report
    from logic.conv import Conv, ConvException
    tr = ref.conv_term(t)
    try:
        pt = cv.get_proof_term(t)
    except RecursionError:
        return None, viol('conv-recursion', case + [cvname, ref.show(tr)], '%s on %s ends in RecursionError' % (cvname, ref.show(tr)))
    except Exception as e:
        return None, None
    th = pt.th
    pr = ref.conv_term(th.prop)
    if not (pr[0] == 'app' and pr[1][0] == 'app' and pr[1][1][0] == 'c' and pr[1][1][1] == 'equals'):
        return None, viol('not-equation', case + [cvname, ref.show(tr)], '%s on %s returned %s, which is not an equation' % (cvname, ref.show(tr), ref.show(pr)))
    lhs, rhs = pr[1][2], pr[2]
    if ref.akey(lhs) != ref.akey(tr):
        return None, viol('wrong-lhs', case + [cvname, ref.show(tr)], '%s on %s returned an equation about another term: %s' % (cvname, ref.show(tr), ref.show(pr)))
    hk = [ref.akey(ref.conv_term(h)) for h in th.hyps]
    ak = [ref.akey(ref.conv_term(h)) for h in allowed_hyps]
    if any(h not in ak for h in hk):
        return None, viol('extra-hyps', case + [cvname, ref.show(tr)], '%s on %s returned hypotheses that were not supplied: %s' % (cvname, ref.show(tr), [str(h) for h in th.hyps]))
    try:
        rpt = report.ProofReport()
        res = theory.check_proof(pt.export(), rpt)
    except Exception as e:
        return None, viol('proof-rejected', case + [cvname, ref.show(tr)], 'the proof term returned by %s on %s is rejected by the checker: %s %s' % (
            cvname, ref.show(tr), type(e).__name__, str(getattr(e, 'str', e))[:200]))
    if ref.thm_key(ref.conv_thm(res)) != ref.thm_key(ref.conv_thm(th)) or rpt.gaps:
        return None, viol('proof-differs', case + [cvname, ref.show(tr)], 'checking the proof of %s on %s gives %s (gaps %s) instead of %s' % (cvname, ref.show(tr), res, rpt.gaps, th))
    if type(cv).eval is not Conv.eval:
        try:
            ev = cv.eval(t)
            if ref.thm_key(ref.conv_thm(ev)) != ref.thm_key(ref.conv_thm(th)):
                return None, viol('eval-differs', case + [cvname, ref.show(tr)], 'eval of %s on %s reports %s, the proof term %s' % (cvname, ref.show(tr), ev, th))
        except Exception:
            pass
    if semantic:
        v = holsem.check_valid(tuple(ref.conv_term(h) for h in th.hyps), pr, sizes=(1, 2), val_cap=4000)
        if v[0] == 'invalid':
            return None, viol('equation-invalid', case + [cvname, ref.show(tr)], '%s on %s returned the equation %s, falsified by %s' % (cvname, ref.show(tr), ref.show(pr), v[1]))
    return rhs, None


def run_group(case, tier):
    g = groups(tier)[case[1]]
    n_ok = 0
    if g[0] == 'arith':
        kind, ms = g[1], g[2]
        from data import nat, integer, real
        base = kind[:-1] if kind.endswith('H') else kind
        cv = {'nat': nat.norm_full, 'int': integer.int_norm_conv, 'real': real.real_norm_conv}[base]()
        name = {'nat': 'nat.norm_full', 'int': 'integer.int_norm_conv', 'real': 'real.real_norm_conv'}[base]
        first = None
        for e in ms:
            t = to_hol(kind, e)
            rhs, bad = judge_conv(cv, name, t, [], case, semantic=False)
            if bad:
                return bad
            if rhs is None:
                continue
            n_ok += 1
            if kind == 'int':
                continue            # the statement claims canonical forms for naturals and reals only
            if first is None:
                first = (e, rhs)
            elif ref.akey(rhs) != ref.akey(first[1]):
                return viol('not-canonical', case + [name, repr(e)], '%s: %s and %s are the same polynomial but normalise to %s and %s' % (
                    name, ref.show(ref.conv_term(to_hol(kind, first[0]))), ref.show(ref.conv_term(t)), ref.show(first[1]), ref.show(rhs)))
            # idempotence
            try:
                pt2 = cv.get_proof_term(ref.to_term(rhs))
                r2 = ref.conv_term(pt2.prop)[2]
                if ref.akey(r2) != ref.akey(rhs):
                    return viol('not-idempotent', case + [name, repr(e)], '%s: normal form %s is normalised further to %s' % (name, ref.show(rhs), ref.show(r2)))
            except RecursionError:
                return viol('conv-recursion', case + [name, repr(e)], '%s on its own normal form ends in RecursionError' % name)
            except Exception:
                pass
        return Outcome('arith-group-ok' if n_ok else 'arith-group-all-fail', n_ok > 0, obs='g%d:%d' % (case[1], n_ok))
    if g[0] == 'tree':
        op, ms = g[1], g[2]
        from logic import logic
        from data import proplogic
        cvs = [('logic.conj_norm', logic.conj_norm()), ('proplogic.sort_conj', proplogic.sort_conj())] if op == 'and' else \
              [('logic.disj_norm', logic.disj_norm()), ('proplogic.sort_disj', proplogic.sort_disj())]
        for name, cv in cvs:
            first = None
            for f in ms:
                t = prop_hol(f)
                rhs, bad = judge_conv(cv, name, t, [], case)
                if bad:
                    return bad
                if rhs is None:
                    continue
                n_ok += 1
                if first is None:
                    first = (f, rhs)
                elif ref.akey(rhs) != ref.akey(first[1]):
                    return viol('not-canonical', case + [name, repr(f)], '%s: %s and %s have the same members but normalise to %s and %s' % (
                        name, ref.show(ref.conv_term(prop_hol(first[0]))), ref.show(ref.conv_term(t)), ref.show(first[1]), ref.show(rhs)))
                try:
                    r2 = ref.conv_term(cv.get_proof_term(ref.to_term(rhs)).prop)[2]
                    if ref.akey(r2) != ref.akey(rhs):
                        return viol('not-idempotent', case + [name, repr(f)], '%s: normal form %s is normalised further to %s' % (name, ref.show(rhs), ref.show(r2)))
                except Exception:
                    pass
        return Outcome('tree-group-ok' if n_ok else 'tree-group-all-fail', n_ok > 0, obs='t%d:%d' % (case[1], n_ok))
    # prop
    from data import proplogic
    for f in g[1]:
        t = prop_hol(f)
        for name, cv in (('proplogic.nnf_conv', proplogic.nnf_conv()), ('proplogic.norm_full', proplogic.norm_full())):
            rhs, bad = judge_conv(cv, name, t, [], case)
            if bad:
                return bad
            if rhs is not None:
                n_ok += 1
    return Outcome('prop-ok' if n_ok else 'prop-all-fail', n_ok > 0, obs='p%d:%d' % (case[1], n_ok))


def run_trav(case, tier):
    from logic import conv
    from kernel.proofterm import ProofTerm
    from kernel.term import Eq
    A = ('tv', 'a')
    f = ('v', 'f', ref.fun(A, A))
    c = ('v', 'c', A)
    x = ('v', 'x', A)
    g = ('v', 'g', ref.funs(A, A, A))
    eqs = [Eq(ref.to_term(('app', f, c)), ref.to_term(c)), Eq(ref.to_term(('app', ('app', g, x), x)), ref.to_term(x)),
           Eq(ref.to_term(('abs', 'x', A, ('app', f, ('b', 0)))), ref.to_term(f))]
    ts = lambda_terms(tier)[case[1]:case[2]]
    n_ok = 0
    for t_ref in ts:
        if ref.is_open(t_ref):
            continue
        for ei, eqt in enumerate(eqs):
            base = conv.rewr_conv(ProofTerm.assume(eqt))
            cvs = [('rewr', base), ('top_conv(rewr)', conv.top_conv(base)), ('bottom_conv(rewr)', conv.bottom_conv(base)),
                   ('top_sweep_conv(rewr)', conv.top_sweep_conv(base)), ('abs_conv(rewr)', conv.abs_conv(base)),
                   ('repeat_conv(rewr)', conv.repeat_conv(base)), ('try_conv(rewr)', conv.try_conv(base)),
                   ('then_conv(try rewr, try rewr)', conv.then_conv(conv.try_conv(base), conv.try_conv(base))),
                   ('else_conv(rewr, all)', conv.else_conv(base, conv.all_conv())),
                   ('arg_conv(rewr)', conv.arg_conv(base)), ('fun_conv(rewr)', conv.fun_conv(base))]
            for name, cv in cvs:
                t = ref.to_term(t_ref)
                rhs, bad = judge_conv(cv, '%s with %s' % (name, eqt.print_basic()), t, [eqt], case)
                if bad:
                    return bad
                if rhs is not None:
                    n_ok += 1
        for name, cv in (('beta_conv', conv.beta_conv()), ('beta_norm_conv', conv.beta_norm_conv()), ('eta_conv', conv.eta_conv()),
                         ('top_conv(beta_conv)', conv.top_conv(conv.beta_conv())), ('bottom_conv(eta_conv)', conv.bottom_conv(conv.eta_conv())),
                         ('top_sweep_conv(eta_conv)', conv.top_sweep_conv(conv.eta_conv())), ('abs_conv(eta_conv)', conv.abs_conv(conv.eta_conv())),
                         ('top_conv(eta_conv)', conv.top_conv(conv.eta_conv()))):
            t = ref.to_term(t_ref)
            rhs, bad = judge_conv(cv, name, t, [], case)
            if bad:
                return bad
            if rhs is not None:
                n_ok += 1
    return Outcome('trav-ok' if n_ok else 'trav-all-fail', n_ok > 0, obs='v%d:%d' % (case[1], n_ok))


_TIER = ['quick']


def setup(tier):
    _TIER[0] = tier
    from logic import basic
    from data import nat, integer, real, proplogic  # noqa  (these imports load theories as a side effect)
    basic.load_theory('real')


def run(case):
    if case[0] == 'group':
        return run_group(case, _TIER[0])
    return run_trav(case, _TIER[0])
