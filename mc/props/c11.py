"""C11 — definitional theory items are conservative and survive save/load/edit.  E1."""
import copy
import itertools
import json
import os

from mc import ref, holsem
from mc.engine import Outcome, tier_param, REPO

ID = 'C11'
LEVEL = 'exploration'
WALL_S = 120.0
LINE_BUDGET = 400000000
RULE = ('(a) every item of every library theory file in its own context: export_json -> parse_item and get_display -> parse_edit '
        'round trips, every generated extension well-typed over the extended signature; (b) generated definitions: name c, type in '
        '{bool, a=>bool, a=>a=>bool, bool=>bool}, every argument list of the right length over {x, y, x again, a constant, an '
        'application}, every right-hand side up to the size bound over {arguments, an extra free variable, c itself, c at another '
        'type instance, a quantifier over a type variable absent from the type}; overloaded names; (c) two-step sequences that '
        're-define a name; (d) inductive predicates / functions / datatypes over fresh and overloaded names with rule heads at the '
        'declared and at another type instance. distinct_nontrivial = distinct items that were ACCEPTED and judged.')
ASSUMPTIONS = ['reference side conditions + finite-model search for an interpretation of the defined constant (mc/holsem.py)']


def bounds(tier):
    return tier_param(tier, {'library_files': 'all', 'rhs_size': 5}, {'library_files': 'all', 'rhs_size': 6})


def library_files():
    d = os.path.join(REPO, 'library')
    return sorted(f[:-5] for f in os.listdir(d) if f.endswith('.json'))


# ------------------------------------------------------------------------------ generated definitions

TYPES = ["bool", "'a ⇒ bool", "'a ⇒ 'a ⇒ bool", "bool ⇒ bool"]


def arg_lists(T):
    n = T.count('⇒')
    pool = ['x', 'y', 'true', '(f x)']
    if T == "bool ⇒ bool":
        pool = ['x', 'true', '(¬x)']
    return [list(a) for a in itertools.product(pool, repeat=n)]


def rhs_list(T, args, tier):
    """right-hand sides as text (type bool)"""
    el = "bool" if T.startswith("bool") else "'a"
    out = ['true', 'false']
    vs = [a for a in args if a in ('x', 'y')]
    if el == 'bool':
        for v in set(vs):
            out += [v, '¬' + v]
        out += ['z', 'x ∧ z', '¬c' if T == 'bool' else '¬(c x)', 'c' if T == 'bool' else 'c x', 'c ∨ true' if T == 'bool' else 'c true ∨ x',
                '∀u::\'b. ∀w. u = w', '∃u::\'b. ∀w. u = w', '(c::bool ⇒ bool) true' if T != 'bool ⇒ bool' else '(c::\'a ⇒ bool) z1']
    else:
        for v in set(vs):
            out += ['%s = %s' % (v, v), 'f %s = %s' % (v, v)]
        if len(set(vs)) == 2:
            out += ['x = y', '¬(x = y)', 'c y' + (' x' if T.count('⇒') == 2 else ''), '¬(c y' + (' x)' if T.count('⇒') == 2 else ')')]
        out += ['x = z', 'c x' + (' y' if T.count('⇒') == 2 else ''), '¬(c x' + (' y)' if T.count('⇒') == 2 else ')'),
                '∀u::\'b. ∀w. u = w', '(c::bool ⇒ bool) true', '∀u. ∀w::\'a. u = w']
    return out


def def_cases(tier):
    for T in TYPES:
        for args in arg_lists(T):
            for rhs in rhs_list(T, args, tier):
                lhs = 'c ' + ' '.join(args) if args else 'c'
                conn = '⟷'
                yield ['def', {'ty': 'def', 'name': 'c', 'type': T, 'prop': '%s %s %s' % (lhs, conn, rhs if ' ' not in rhs or rhs.startswith('(') else '(' + rhs + ')')}]
    # a constant with two type variables whose right side uses it at an instance that renames one variable to the other and
    # specialises a later position (matching in either direction fails or succeeds depending on leftover bindings; they overlap)
    T2 = "'a ⇒ 'b ⇒ bool"
    for rhs in ["¬((c::'b ⇒ bool ⇒ bool) y true)", "¬((c::bool ⇒ 'a ⇒ bool) true x)", "¬((c::'b ⇒ 'a ⇒ bool) y x)",
                "¬((c::'a ⇒ 'a ⇒ bool) x x)", "¬((c::bool ⇒ bool ⇒ bool) true true)", "x = x", "¬((c::'b ⇒ 'b ⇒ bool) y y)"]:
        yield ['def', {'ty': 'def', 'name': 'c', 'type': T2, 'prop': 'c x y ⟷ (%s)' % rhs}]
    # the same on an overloaded library name
    for rhs in ["¬(less_eq (λu::'b. (0::nat)) (λu. 0))", "¬(less_eq (λu::nat. (0::'a)) (λu. 0))" if False else "¬(less_eq (λu::'b. true) (λu. true))", "true"]:
        yield ['def', {'ty': 'def', 'name': 'less_eq', 'type': "('a ⇒ 'b) ⇒ ('a ⇒ 'b) ⇒ bool", 'prop': 'less_eq f g ⟷ (%s)' % rhs}]
    # overloaded name reuse: plus at bool
    for rhs in ['x', 'plus x y', '¬(plus y x)', 'true']:
        yield ['def', {'ty': 'def', 'name': 'plus', 'type': 'bool ⇒ bool ⇒ bool', 'prop': 'plus x y ⟷ (%s)' % rhs}]


def seq_cases():
    d1 = {'ty': 'def', 'name': 'c', 'type': "'a ⇒ bool", 'prop': 'c x ⟷ true'}
    for T2, prop in [("'a ⇒ bool", 'c x ⟷ false'), ("'a ⇒ bool", 'c x ⟷ true'), ("bool ⇒ bool", 'c x ⟷ ¬x'), ("'a ⇒ 'a ⇒ bool", 'c x y ⟷ false')]:
        yield ['seq', d1, {'ty': 'def', 'name': 'c', 'type': T2, 'prop': prop}]
    a1 = {'ty': 'def.ax', 'name': 'c', 'type': "'a ⇒ bool"}
    yield ['seq', a1, {'ty': 'def', 'name': 'c', 'type': "'a ⇒ bool", 'prop': 'c x ⟷ false'}]
    yield ['seq', d1, {'ty': 'def.ind', 'name': 'c', 'type': "'a ⇒ bool", 'rules': [{'prop': 'c x ⟷ false'}]}]
    yield ['seq', d1, {'ty': 'def.pred', 'name': 'c', 'type': "'a ⇒ bool", 'rules': [{'name': 'c_intro', 'prop': 'c x'}]}]


def other_cases():
    """inductive predicates, recursive functions, datatypes (theory nat: overloaded less_eq / plus exist)"""
    cs = []
    for nm, T in [('p_new', 'nat ⇒ bool'), ('less_eq', 'bool ⇒ bool ⇒ bool'), ('less_eq', "'a list ⇒ 'a list ⇒ bool")]:
        heads = []
        if T == 'nat ⇒ bool':
            heads = ['p_new 0', 'p_new n ⟶ p_new (Suc n)', 'p_new (0::nat) ⟶ p_new 0', '(p_new::bool ⇒ bool) true']
        elif T.startswith('bool'):
            heads = ['less_eq false true', 'less_eq x x', 'less_eq (Suc 0) (0::nat)', 'less_eq x y ⟶ less_eq (0::nat) 0']
        else:
            heads = ['less_eq ([]::\'a list) xs', 'less_eq (0::nat) 0']
        for k in (1, 2):
            for hs in itertools.permutations(heads, k):
                cs.append(['item', {'ty': 'def.pred', 'name': nm, 'type': T, 'rules': [{'name': '%s_r%d' % (nm, i), 'prop': h} for i, h in enumerate(hs)]}])
    for rules in [['f_new 0 = (0::nat)', 'f_new (Suc n) = Suc (f_new n)'], ['f_new 0 = (0::nat)', 'f_new (Suc n) = m'],
                  ['f_new n = f_new n + 1'], ['(f_new::bool ⇒ nat) true = 0'], ['f_new 0 = (0::nat)', 'f_new 0 = 1']]:
        cs.append(['item', {'ty': 'def.ind', 'name': 'f_new', 'type': 'nat ⇒ nat', 'rules': [{'prop': r} for r in rules]}])
    for constrs in [[('A1', 'tnew', []), ('B1', 'nat ⇒ tnew', ['n'])], [('A1', 'tnew', []), ('B1', 'tnew ⇒ tnew ⇒ tnew', ['l', 'r'])],
                    [('A1', 'nat ⇒ nat ⇒ tnew', ['n', 'n'])], [('A1', 'bool', [])]]:
        cs.append(['item', {'ty': 'type.ind', 'name': 'tnew', 'args': [], 'constrs': [{'name': n, 'type': T, 'args': a} for n, T, a in constrs]}])
    cs.append(['item', {'ty': 'type.ind', 'name': 'tpoly', 'args': ['a'], 'constrs': [{'name': 'Leaf', 'type': "'a tpoly", 'args': []},
                                                                                    {'name': 'Node', 'type': "'a ⇒ 'a tpoly ⇒ 'a tpoly", 'args': ['v', 't']}]}])
    return cs


def cases(tier):
    for f in library_files():
        yield ['lib', f]
    for c in def_cases(tier):
        yield c
    for c in seq_cases():
        yield c
    for c in other_cases():
        yield c


# ------------------------------------------------------------------------------ judging

def viol(kind, case, what):
    return Outcome(kind.upper(), violation={'signature': kind + ':' + repr(case), 'what': what})


def setup(tier):
    from logic import basic
    basic.load_theory('nat')


def check_extensions(exts, case, label):
    """every theorem of the extension is well-typed over the extended signature"""
    from kernel import theory
    for ext in exts:
        if ext.is_theorem():
            th = ext.th
            for t in list(th.hyps) + [th.prop]:
                try:
                    r = ref.conv_term(t)
                    ok = ref.typeof(r) == ref.BOOL
                except Exception as e:
                    ok = False
                if not ok:
                    return viol('ext-illtyped', case, '%s: generated theorem %s is not a well-typed proposition: %s' % (label, ext.name, ref.show(ref.conv_term(t)) if hasattr(t, 'ty') else t))
                try:
                    theory.thy.check_term(t)
                except Exception as e:
                    return viol('ext-bad-signature', case, '%s: generated theorem %s uses a constant outside its declared type: %s (%s)' % (
                        label, ext.name, ref.show(r), getattr(e, 'str', e)))
        elif ext.is_constant():
            try:
                theory.thy.check_type(ext.T)
            except Exception as e:
                return viol('ext-bad-type', case, '%s: constant %s declared at an ill-formed type' % (label, ext.name))
    return None


def run_lib(case):
    from kernel import theory
    from logic import basic
    from server import items
    from syntax.settings import global_setting
    name = case[1]
    data = basic.load_json_data(name)
    try:
        basic.load_theory(name, limit='start')
    except Exception as e:
        return Outcome('lib-not-loadable')
    n = 0
    for raw in data['content']:
        try:
            item = items.parse_item(raw)
        except Exception as e:
            return Outcome('lib-parse-crash')
        if item.error:
            continue
        try:
            exts = item.get_extension()
        except Exception as e:
            return viol('lib-extension-exc', case + [raw.get('name')], 'item %s of %s: get_extension raises %s: %s' % (raw.get('name'), name, type(e).__name__, e))
        old_thy = copy.copy(theory.thy)
        try:
            theory.thy.unchecked_extend(exts)
        except Exception as e:
            theory.thy = old_thy
            continue
        new_thy = theory.thy
        bad = check_extensions(exts, case + [raw.get('name')], 'library item %s/%s' % (name, raw.get('name')))
        if bad:
            return bad
        # round trips: printed in the extended theory, parsed back in the context before the item
        try:
            js = item.export_json()
            with global_setting(unicode=True, highlight=False):
                disp = item.get_display()
            theory.thy = copy.copy(old_thy)
            item_j = items.parse_item(json.loads(json.dumps(js, ensure_ascii=False)))
            if item.ty == 'thm':
                for attr in ('proof', 'steps', 'num_gaps'):
                    if hasattr(item, attr):
                        setattr(item_j, attr, getattr(item, attr))
            if item_j.error or not (item == item_j):
                theory.thy = new_thy
                return viol('lib-export-roundtrip', case + [raw.get('name')], 'item %s of %s: parse_item(export_json()) differs from the item (%s)' % (
                    raw.get('name'), name, item_j.error))
            theory.thy = copy.copy(old_thy)
            item_e = items.parse_edit(disp)
            if item.ty == 'thm':
                for attr in ('proof', 'steps', 'num_gaps'):
                    if hasattr(item, attr):
                        setattr(item_e, attr, getattr(item, attr))
            if item_e.error or not (item == item_e):
                theory.thy = new_thy
                return viol('lib-edit-roundtrip', case + [raw.get('name')], 'item %s of %s: parse_edit(get_display()) differs from the item (%s)' % (
                    raw.get('name'), name, item_e.error))
        except Exception as e:
            theory.thy = new_thy
            return viol('lib-roundtrip-exc', case + [raw.get('name')], 'item %s of %s: round trip raises %s: %s' % (raw.get('name'), name, type(e).__name__, str(e)[:200]))
        theory.thy = new_thy
        n += 1
    return Outcome('lib-ok', True, obs='%s:%d' % (name, n))


def accept(data):
    """parse + extend in a copy of the current theory; returns (item, exts) or None; restores the theory"""
    from kernel import theory
    from server import items
    item = items.parse_item(data)
    if item.error:
        return None
    exts = item.get_extension()
    theory.thy.unchecked_extend(exts)
    return item, exts


def in_theory_copy(fn):
    from kernel import theory
    old = theory.thy
    theory.thy = copy.copy(old)
    try:
        return fn()
    finally:
        theory.thy = old


def side_conditions(item):
    """reference side conditions on an accepted definition; returns list of violated conditions"""
    prop = ref.conv_term(item.prop)
    name = item.name
    T = ref.conv_type(item.type)
    bad = []
    # prop = equals lhs rhs
    lhs, rhs = prop[1][2], prop[2]
    h = lhs
    args = []
    while h[0] == 'app':
        args.append(h[2])
        h = h[1]
    args.reverse()
    if h != ('c', name, T):
        bad.append('left side is not the constant applied to arguments')
    if not all(a[0] == 'v' for a in args):
        bad.append('an argument on the left side is not a variable')
    if len(set(args)) != len(args):
        bad.append('arguments on the left side are not distinct')
    rv = [a for a in ref.free_atoms(rhs) if a[0] in ('v', 'sv')]
    if any(a not in args for a in rv):
        bad.append('right side has free variables that are not arguments: %s' % [a[1] for a in rv if a not in args])
    tv_T = ref.type_atoms(T, [])
    tv_rhs = ref.term_type_atoms(rhs)
    if any(a not in tv_T for a in tv_rhs):
        bad.append('right side mentions type variables absent from the type of the constant: %s' % [ref.show_type(a) for a in tv_rhs if a not in tv_T])
    for a in ref.free_atoms(rhs):
        if a[0] == 'c' and a[1] == name and overlap(a[2], T):
            bad.append('the constant occurs on the right side at the overlapping type %s' % ref.show_type(a[2]))
    return bad


def overlap(T1, T2):
    """do the two types have a common instance? (type variables of the two are renamed apart)"""
    def ren(T, tag):
        if T[0] == 'tc':
            return ('tc', T[1], tuple(ren(a, tag) for a in T[2]))
        return (T[0], tag + T[1])
    sub = {}

    def walk(T):
        while T[0] != 'tc' and T in sub:
            T = sub[T]
        return T

    def unify(a, b):
        a, b = walk(a), walk(b)
        if a == b:
            return True
        if a[0] != 'tc':
            sub[a] = b
            return True
        if b[0] != 'tc':
            sub[b] = a
            return True
        if a[1] != b[1] or len(a[2]) != len(b[2]):
            return False
        return all(unify(x, y) for x, y in zip(a[2], b[2]))
    return unify(ren(T1, 'l'), ren(T2, 'r'))


def interpretation_exists(item):
    """finite-model search: for every carrier assignment of the type variables of the constant's type, is there a
    value of the constant making the equation true for all valuations (and all carriers of the other type variables)?
    returns True / False / None (undecided)"""
    prop = ref.conv_term(item.prop)
    cT = ref.conv_type(item.type)
    catom = ('c', item.name, cT)
    try:
        ann, Tp = holsem.annotate(prop)
    except ref.IllTyped:
        return None
    atoms, tyatoms = holsem.free_objects([prop])
    if any(a[0] == 'c' and a != catom for a in atoms):
        return None
    cty = ref.type_atoms(cT, [])
    others = [a for a in tyatoms if a not in cty]
    var_atoms = [a for a in atoms if a != catom]
    try:
        for sizes in itertools.product((1, 2), repeat=len(cty)):
            found = False
            m0 = holsem.Model2(dict(zip(cty, sizes)))
            if any(t not in m0.sizes for t in ref.type_atoms(cT, [])):
                return None
            cdom = m0.dom(cT)
            for cval in cdom:
                ok = True
                for osz in itertools.product((1, 2), repeat=len(others)):
                    m = holsem.Model2(dict(list(zip(cty, sizes)) + list(zip(others, osz))))
                    doms = [m.dom(a[2]) for a in var_atoms]
                    for vals in itertools.product(*doms):
                        env = dict(zip(var_atoms, vals))
                        env[catom] = cval
                        if not m.ev(ann, env, ()):
                            ok = False
                            break
                    if not ok:
                        break
                if ok:
                    found = True
                    break
            if not found:
                return False
    except (holsem.Undecided, KeyError):
        return None
    return True


def run_def(case):
    data = case[1]

    def body():
        from kernel import theory
        try:
            res = accept(dict(data))
        except Exception as e:
            return Outcome('def-refused-at-extension')
        if res is None:
            return Outcome('def-refused')
        item, exts = res
        bad = check_extensions(exts, case, 'definition %s' % data['prop'])
        if bad:
            return bad
        try:
            conds = side_conditions(item)
        except Exception as e:
            conds = ['side conditions not evaluable: %s' % e]
        sem = interpretation_exists(item)
        if conds or sem is False:
            return viol('def-not-conservative', case, 'definition "%s :: %s where %s" is accepted although %s%s' % (
                data['name'], data['type'], data['prop'], '; '.join(conds) if conds else 'no side condition is violated',
                '; no interpretation of the constant satisfies the equation in a finite model' if sem is False else ''))
        # round trips
        from server import items
        from syntax.settings import global_setting
        return Outcome('def-accepted', True, obs=data['prop'])
    return in_theory_copy(body)


def run_seq(case):
    d1, d2 = case[1], case[2]

    def body():
        try:
            r1 = accept(dict(d1))
        except Exception:
            return Outcome('seq-first-refused')
        if r1 is None:
            return Outcome('seq-first-refused')
        try:
            r2 = accept(dict(d2))
        except Exception:
            return Outcome('seq-second-refused', True)
        if r2 is None:
            return Outcome('seq-second-refused', True)
        return viol('redefinition', case, 'after accepting %r, the item %r that defines the same name again is accepted as well' % (d1, d2))
    return in_theory_copy(body)


def run_item(case):
    data = case[1]

    def body():
        from server import items
        from syntax.settings import global_setting
        from kernel import theory
        base = copy.copy(theory.thy)
        try:
            res = accept(json.loads(json.dumps(data)))
        except Exception as e:
            return Outcome('item-refused-at-extension')
        if res is None:
            return Outcome('item-refused')
        item, exts = res
        bad = check_extensions(exts, case, 'item %r' % (data,))
        if bad:
            return bad
        # export / edit round trips in the context before the item
        after = theory.thy
        try:
            js = item.export_json()
            with global_setting(unicode=True, highlight=False):
                disp = item.get_display()
            theory.thy = copy.copy(base)
            item_j = items.parse_item(json.loads(json.dumps(js, ensure_ascii=False)))
            if item_j.error or not (item == item_j):
                return viol('item-export-roundtrip', case, 'parse_item(export_json()) differs for %r (%s)' % (data, item_j.error))
            theory.thy = copy.copy(base)
            item_e = items.parse_edit(disp)
            if item_e.error or not (item == item_e):
                return viol('item-edit-roundtrip', case, 'parse_edit(get_display()) differs for %r (%s)' % (data, item_e.error))
        except Exception as e:
            return viol('item-roundtrip-exc', case, 'round trip of %r raises %s: %s' % (data, type(e).__name__, str(e)[:200]))
        finally:
            theory.thy = after
        return Outcome('item-accepted', True, obs=repr(data))
    return in_theory_copy(body)


def run(case):
    k = case[0]
    if k == 'lib':
        from logic import basic
        try:
            return run_lib(case)
        finally:
            basic.load_theory('nat')
    if k == 'def':
        return run_def(case)
    if k == 'seq':
        return run_seq(case)
    return run_item(case)
