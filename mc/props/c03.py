"""C03 — term equality is alpha-equivalence; substitution is capture-free.

E1 over values (all well-typed terms up to a size bound, tree-shaped and maximally shared DAG objects)
+ E2-style exhaustive histories of object creation / copy / drop / gc / hash / compare.
Oracle R (mc.ref: structural key modulo bound names, textbook de Bruijn operations, validated against
the finite-model semantics in the self test) and oracle S for denotations.
"""
import copy
import gc
import itertools

from mc import ref, gen, holsem
from mc.engine import Outcome, tier_param
from mc.ref import BOOL, fun, funs

ID = 'C03'
WALL_S = 30.0
LINE_BUDGET = 60000000
LEVEL = 'exploration'
RULE = ('(1) all ordered pairs / triples of the N smallest well-typed terms (and types) over the alphabet for ==, hash, '
        'fast_compare; (2) every term x every instantiation of <=2 of its variables by small (also open) terms for subst, '
        'subst_type, subst_bound, beta_conv, beta_norm, abstract_over/Lambda, incr_boundvars, on tree-shaped and on '
        'maximally shared objects; (3) all histories of <=L events new/copy-construct/copy/drop/gc/hash/compare over 3 '
        'handles. distinct_nontrivial = distinct cases in which the operation returned a value that the reference judged.')
ASSUMPTIONS = ['reference operations in mc/ref.py (self-tested against the finite-model semantics)',
               'object-address reuse by CPython is observed, not controlled (histories are replayed 3 times each)']

A = ('tv', 'a')
SA = ('stv', 'a')


def v(n, T):
    return ('v', n, T)


def sv(n, T):
    return ('sv', n, T)


def bounds(tier):
    return tier_param(tier, {'pair_terms': 260, 'triple_terms': 70, 'op_term_size': 6, 'history_len': 4},
                      {'pair_terms': 1200, 'triple_terms': 160, 'op_term_size': 8, 'history_len': 5})


ATOMS = [('c', 'c', A), v('x', A), v('y', A), sv('x', A), v('x', BOOL), ('c', 'f', fun(A, A)), ('c', 'g', funs(A, A, A)),
         v('P', fun(A, BOOL)), sv('F', fun(A, A))]


def universe(maxsize, all_names=True):
    g = gen.TermGen(ATOMS, [A], names=('x', 'y'), all_names=all_names)
    out = []
    for n in range(1, maxsize + 1):
        out.extend(g.gen(n))
    return out


def open_args():
    """arguments incl. loose bound variables (as they occur when substituting under binders)"""
    return [('c', 'c', A), v('x', A), v('y', A), ('b', 0), ('b', 1), ('app', ('c', 'f', fun(A, A)), ('b', 0)),
            ('app', ('c', 'f', fun(A, A)), v('x', A)), sv('x', A)]


TYPES = None


def type_universe():
    if _TU:
        return _TU[0]
    _TU.append(_type_universe())
    return _TU[0]


_TU = []


def _type_universe():
    return gen.types_upto(5, [BOOL, A, SA, ('tv', 'b'), ('tc', 'nat', ())]) + [('tc', 'list', (A,)), ('tc', 'list', (BOOL,)),
                                                                                ('tc', 'prod', (A, BOOL)), ('tc', 'prod', (BOOL, A))]


_U = {}


def U(tier):
    if tier not in _U:
        b = bounds(tier)
        full = universe(b['op_term_size'])
        _U[tier] = full
    return _U[tier]


def cases(tier):
    b = bounds(tier)
    terms = U(tier)
    n = min(b['pair_terms'], len(terms))
    for i in range(n):
        yield ['pairs', i, n]
    for i in range(min(b['triple_terms'], len(terms))):
        yield ['triples', i, min(b['triple_terms'], len(terms))]
    nt = len(type_universe())
    for i in range(nt):
        yield ['types', i, nt]
    # operations: only terms with the representative naming (names do not matter for the operations)
    for i, (t, T) in enumerate(terms):
        if not names_canonical(t):
            continue
        yield ['ops', i]
    # explicitly shared sub-objects at different binder depths
    for i in range(len(DAG_SUBS)):
        for j in range(len(DAG_CTXS)):
            for w in range(3):
                yield ['dag', i, j, w]
    # histories
    for h in histories(b['history_len']):
        yield ['hist', h]


def names_canonical(t, depth=0):
    k = t[0]
    if k == 'app':
        return names_canonical(t[1], depth) and names_canonical(t[2], depth)
    if k == 'abs':
        return t[1] == ('x', 'y')[min(depth, 1)] and names_canonical(t[3], depth + 1)
    return True


# ------------------------------------------------------------------------------ builders

def to_term_shared(t, memo):
    """holpy object in which equal reference sub-terms are the SAME python object (a DAG)"""
    h = memo.get(t)
    if h is not None:
        return h
    from kernel.term import SVar, Var, Const, Comb, Abs, Bound
    k = t[0]
    if k == 'sv':
        h = SVar(t[1], ref.to_type(t[2]))
    elif k == 'v':
        h = Var(t[1], ref.to_type(t[2]))
    elif k == 'c':
        h = Const(t[1], ref.to_type(t[2]))
    elif k == 'app':
        h = Comb(to_term_shared(t[1], memo), to_term_shared(t[2], memo))
    elif k == 'abs':
        h = Abs(t[1], ref.to_type(t[2]), to_term_shared(t[3], memo))
    else:
        h = Bound(t[1])
    memo[t] = h
    return h


def viol(kind, case, what):
    return Outcome(kind.upper(), violation={'signature': kind + ':' + repr(case), 'what': what})


def setup(tier):
    from logic import basic
    basic.load_theory('logic_base')


# ------------------------------------------------------------------------------ pairs / triples / types

def sign(x):
    return (x > 0) - (x < 0)


def run_pairs(case, tier):
    from kernel import term_ord
    terms = U(tier)
    i, n = case[1], case[2]
    a_ref = terms[i][0]
    a = ref.to_term(a_ref)
    ka = ref.akey(a_ref)
    for j in range(n):
        b_ref = terms[j][0]
        b = ref.to_term(b_ref)
        expect = (ka == ref.akey(b_ref))
        got = (a == b)
        if got != expect:
            return viol('eq', case + [j], '%s == %s returned %s, alpha-equivalence says %s' % (ref.show(a_ref), ref.show(b_ref), got, expect))
        if (a != b) == got:
            return viol('ne', case + [j], '!= inconsistent with == on %s, %s' % (ref.show(a_ref), ref.show(b_ref)))
        if expect and hash(a) != hash(b):
            return viol('hash', case + [j], 'equal terms with different hashes: %s, %s' % (ref.show(a_ref), ref.show(b_ref)))
        c1 = term_ord.fast_compare(a, b)
        c2 = term_ord.fast_compare(b, a)
        if sign(c1) != -sign(c2):
            return viol('cmp-antisym', case + [j], 'fast_compare(a,b)=%s, (b,a)=%s for %s, %s' % (c1, c2, ref.show(a_ref), ref.show(b_ref)))
        if (c1 == 0) != expect:
            return viol('cmp-eq', case + [j], 'fast_compare=%s but equality is %s for %s, %s' % (c1, expect, ref.show(a_ref), ref.show(b_ref)))
    return Outcome('pairs-ok', True, obs='p%d' % i)


def run_triples(case, tier):
    from kernel import term_ord
    terms = U(tier)
    i, n = case[1], case[2]
    hs = [ref.to_term(terms[j][0]) for j in range(n)]
    a = hs[i]
    row = [term_ord.fast_compare(a, b) for b in hs]
    for j in range(n):
        if row[j] > 0:
            continue
        for k in range(n):
            if term_ord.fast_compare(hs[j], hs[k]) <= 0 and row[k] > 0:
                return viol('cmp-trans', case + [j, k], 'fast_compare not transitive: %s <= %s <= %s but first > third' % (
                    ref.show(terms[i][0]), ref.show(terms[j][0]), ref.show(terms[k][0])))
    return Outcome('triples-ok', True, obs='t%d' % i)


_HT = []
_HT2 = []


def run_types(case):
    from kernel import term_ord
    tys = type_universe()
    if not _HT:
        _HT.extend(ref.to_type(T) for T in tys)
        _HT2.extend(ref.to_type(T) for T in tys)
    i = case[1]
    a = _HT[i]
    for j, Tj in enumerate(tys):
        b = _HT2[j]
        expect = tys[i] == Tj
        if (a == b) != expect:
            return viol('type-eq', case + [j], 'type == wrong for %s, %s' % (ref.show_type(tys[i]), ref.show_type(Tj)))
        if expect and hash(a) != hash(b):
            return viol('type-hash', case + [j], 'equal types hash differently: %s' % ref.show_type(Tj))
        c1, c2 = term_ord.fast_compare_typ(a, b), term_ord.fast_compare_typ(b, a)
        if sign(c1) != -sign(c2) or (c1 == 0) != expect:
            return viol('type-cmp', case + [j], 'fast_compare_typ(%s, %s) = %s / %s' % (ref.show_type(tys[i]), ref.show_type(Tj), c1, c2))
        for k, Tk in enumerate(tys):
            c = _HT[k]
            if c1 <= 0 and term_ord.fast_compare_typ(b, c) <= 0 and term_ord.fast_compare_typ(a, c) > 0:
                return viol('type-cmp-trans', case + [j, k], 'fast_compare_typ not transitive on %s, %s, %s' % (
                    ref.show_type(tys[i]), ref.show_type(Tj), ref.show_type(Tk)))
    return Outcome('types-ok', True, obs='T%d' % i)


# ------------------------------------------------------------------------------ operations

def well_typed_type(t):
    try:
        return ref.typeof(t)
    except ref.IllTyped:
        return None


def check_result(kind, case, desc, got_h, expect_ref, same_type_as=None):
    """compare a holpy result with the reference result (alpha key); returns Outcome or None"""
    try:
        got = ref.conv_term(got_h)
    except Exception as e:
        return viol(kind + '-bad-object', case, '%s returned a malformed object: %s' % (desc, e))
    if ref.akey(got) != ref.akey(expect_ref):
        return viol(kind, case, '%s returned %s, reference %s' % (desc, ref.show(got), ref.show(expect_ref)))
    return None


def run_ops(case, tier):
    from kernel.term import Inst, Term, Lambda, TermException, TypeCheckException
    from kernel.type import TyInst
    terms = U(tier)
    t_ref, T = terms[case[1]]
    nchecks = 0
    for shared in (False, True):
        def build(r):
            return to_term_shared(r, {}) if shared else ref.to_term(r)
        t = build(t_ref)
        tag = 'shared ' if shared else ''
        # --- subst_type
        for m in ({'a': BOOL}, {'a': fun(A, A)}):
            # only schematic type variables are instantiated; here none occur except through ?x : 'a (a TVar) -> unchanged
            try:
                r = t.subst_type(TyInst(**{k: ref.to_type(x) for k, x in m.items()}))
            except Exception as e:
                return viol('subst_type-exc', case, '%ssubst_type raised %s on %s' % (tag, e, ref.show(t_ref)))
            bad = check_result('subst_type', case, '%ssubst_type %r on %s' % (tag, m, ref.show(t_ref)), r,
                               ref.tysubst(t_ref, {('stv', k): x for k, x in m.items()}))
            if bad:
                return bad
            nchecks += 1
        # --- subst
        atoms = [a for a in ref.free_atoms(t_ref) if a[0] in ('v', 'sv')]
        cands = [x for x in open_args() + [('c', 'f', fun(A, A)), ('abs', 'y', A, ('b', 0)), ('abs', 'y', A, v('y', A))]]
        for r_n in (1, 2):
            for chosen in itertools.combinations(atoms, r_n):
                # names must be distinct per kind (Inst is keyed by name)
                if len(set((a[0], a[1]) for a in chosen)) != len(chosen):
                    continue
                # another atom of the same kind+name but different type would make the instantiation ill-typed
                if any(b[0] == a[0] and b[1] == a[1] and b != a for a in chosen for b in atoms):
                    continue
                pools = [[x for x in cands if safe_type(x) == a[2] or (ref.is_open(x) and open_type(x) == a[2])] for a in chosen]
                for vals in itertools.product(*pools):
                    inst = Inst()
                    m = {}
                    for a, val in zip(chosen, vals):
                        if a[0] == 'sv':
                            inst[a[1]] = ref.to_term(val)
                        else:
                            inst.var_inst[a[1]] = ref.to_term(val)
                        m[a] = val
                    expect = subst_no_lift(t_ref, m)
                    try:
                        r = t.subst(inst)
                    except (TermException, TypeCheckException):
                        continue            # open instantiation values are refused by get_type(): a rejection
                    except Exception as e:
                        return viol('subst-exc', case, '%ssubst raised %s: %s on %s with %s' % (tag, type(e).__name__, e, ref.show(t_ref), show_map(m)))
                    bad = check_result('subst', case, '%ssubst %s on %s' % (tag, show_map(m), ref.show(t_ref)), r, expect)
                    if bad:
                        return bad
                    nchecks += 1
        # --- abstract_over / Lambda
        for var in [v('x', A), v('y', A), sv('x', A), v('x', BOOL), v('P', fun(A, BOOL))]:
            clash = any(a[0] == var[0] and a[1] == var[1] and a != var for a in ref.free_atoms(t_ref))
            hv = ref.to_term(var)
            try:
                r = t.abstract_over(hv)
            except TermException:
                if clash:
                    continue
                return viol('abstract-exc', case, '%sabstract_over %s raised on %s' % (tag, ref.show(var), ref.show(t_ref)))
            if clash:
                # same name at another type present: holpy refuses or must still be right
                pass
            bad = check_result('abstract_over', case, '%sabstract_over %s on %s' % (tag, ref.show(var), ref.show(t_ref)), r,
                               ref.abstract(t_ref, var))
            if bad:
                return bad
            nchecks += 1
            if not ref.is_open(t_ref):
                try:
                    lam = Lambda(hv, t)
                    bad = check_result('lambda', case, '%sLambda %s . %s' % (tag, ref.show(var), ref.show(t_ref)), lam,
                                       ('abs', var[1], var[2], ref.abstract(t_ref, var)))
                    if bad:
                        return bad
                    # beta-reducing the abstraction applied to the variable gives the term back
                    back = lam.subst_bound(hv)
                    bad = check_result('lambda-beta', case, '%s(Lambda %s. t) applied to the variable' % (tag, ref.show(var)), back, t_ref)
                    if bad:
                        return bad
                except TermException:
                    pass
        # --- subst_bound / beta_conv
        if t_ref[0] == 'abs':
            for s_ref in open_args():
                s = ref.to_term(s_ref)
                try:
                    r = t.subst_bound(s)
                except Exception as e:
                    return viol('subst_bound-exc', case, '%ssubst_bound raised %s' % (tag, e))
                bad = check_result('subst_bound', case, '%ssubst_bound of %s with %s' % (tag, ref.show(t_ref), ref.show(s_ref)), r,
                                   ref.inst_bound(t_ref[3], s_ref))
                if bad:
                    return bad
                nchecks += 1
                from kernel.term import Comb
                r2 = Comb(t, s).beta_conv()
                bad = check_result('beta_conv', case, '%sbeta_conv of (%s) %s' % (tag, ref.show(t_ref), ref.show(s_ref)), r2,
                                   ref.inst_bound(t_ref[3], s_ref))
                if bad:
                    return bad
        # --- incr_boundvars
        for inc in (1, 2):
            r = t.incr_boundvars(inc)
            bad = check_result('incr_boundvars', case, '%sincr_boundvars(%d) of %s' % (tag, inc, ref.show(t_ref)), r, ref.shift(t_ref, inc))
            if bad:
                return bad
            nchecks += 1
        # --- beta_norm (closed well-typed terms: strongly normalising)
        if not ref.is_open(t_ref):
            try:
                expect = ref.beta_nf(t_ref, 500)
            except ref.OutOfFuel:
                expect = None
            if expect is not None:
                r = t.beta_norm()
                bad = check_result('beta_norm', case, '%sbeta_norm of %s' % (tag, ref.show(t_ref)), r, expect)
                if bad:
                    return bad
                nchecks += 1
                if T is not None and not shared and ref.size(t_ref) <= 6:
                    d = holsem.denot_equal(t_ref, ref.conv_term(r), sizes=(1, 2), val_cap=3000)
                    if d[0] in ('differ', 'illtyped'):
                        return viol('beta_norm-denot', case, 'beta_norm changes the denotation/type of %s: %s' % (ref.show(t_ref), d[1]))
    return Outcome('ops-ok', True, obs='o%d:%d' % (case[1], nchecks))


def safe_type(x):
    try:
        return ref.typeof(x)
    except ref.IllTyped:
        return None


def open_type(x):
    try:
        return ref.typeof(x, (A, A, A))
    except ref.IllTyped:
        return None


def subst_no_lift(t, m):
    """holpy's subst replaces variables by the given objects without lifting (callers only use closed
    values; open ones are refused).  The reference mirrors the closed case."""
    return ref.subst_free(t, m)


def show_map(m):
    return '{' + ', '.join('%s := %s' % (ref.show(k), ref.show(x)) for k, x in m.items()) + '}'


# ------------------------------------------------------------------------------ shared sub-objects

Fc = ('c', 'f', fun(A, A))
Gc = ('c', 'g', funs(A, A, A))
Hc = ('c', 'H', funs(A, fun(A, A), A))
DAG_SUBS = [('b', 0), ('b', 1), ('b', 2), ('app', Fc, ('b', 0)), ('app', Fc, ('b', 1)), ('app', ('app', Gc, ('b', 0)), ('b', 1)),
            ('app', ('app', Gc, ('b', 1)), v('x', A)), ('app', Fc, sv('x', A)), ('app', ('app', Gc, ('b', 2)), ('b', 0))]
# contexts with two holes '#'; the SAME python object is put into both holes
DAG_CTXS = [
    lambda h: ('app', ('app', Hc, h), ('abs', 'z', A, h)),
    lambda h: ('app', ('app', Hc, ('app', Fc, h)), ('abs', 'z', A, ('app', Fc, h))),
    lambda h: ('app', ('app', Gc, h), ('app', ('abs', 'z', A, h), ('c', 'c', A))),
    lambda h: ('app', ('app', Gc, h), h),
    lambda h: ('app', ('app', Hc, h), ('abs', 'z', A, ('app', ('abs', 'w', A, h), ('b', 0)))),
    lambda h: ('abs', 'u', A, ('app', ('app', Hc, h), ('abs', 'z', A, h))),
]


def build_dag(sub_ref, ctx, wrappers):
    """returns (holpy object with the hole object shared, reference tree)"""
    from kernel.term import Abs
    HOLE = ('c', '#hole#', A)
    tree = ctx(HOLE)
    shared = ref.to_term(sub_ref)

    def conv(t):
        from kernel.term import Comb
        if t == HOLE:
            return shared
        if t[0] == 'app':
            return Comb(conv(t[1]), conv(t[2]))
        if t[0] == 'abs':
            return Abs(t[1], ref.to_type(t[2]), conv(t[3]))
        return ref.to_term(t)

    def fill(t):
        if t == HOLE:
            return sub_ref
        if t[0] == 'app':
            return ('app', fill(t[1]), fill(t[2]))
        if t[0] == 'abs':
            return ('abs', t[1], t[2], fill(t[3]))
        return t
    h = conv(tree)
    r = fill(tree)
    for nm in wrappers:
        h = Abs(nm, ref.to_type(A), h)
        r = ('abs', nm, A, r)
    return h, r


def run_dag(case):
    from kernel.term import Inst, Comb
    from kernel.type import TyInst
    sub_ref = DAG_SUBS[case[1]]
    ctx = DAG_CTXS[case[2]]
    wrappers = [(), ('y',), ('y', 'x')][case[3]]
    n = 0
    for s_ref in [('c', 'c', A), v('y', A), ('b', 0), ('app', Fc, ('b', 0))]:
        h, r = build_dag(sub_ref, ctx, wrappers)
        if r[0] == 'abs':
            got = h.subst_bound(ref.to_term(s_ref))
            bad = check_result('dag-subst_bound', case, 'subst_bound on an object with a shared sub-object: %s with %s' % (ref.show(r), ref.show(s_ref)),
                               got, ref.inst_bound(r[3], s_ref))
            if bad:
                return bad
            n += 1
            h, r = build_dag(sub_ref, ctx, wrappers)
            got = Comb(h, ref.to_term(s_ref)).beta_conv()
            bad = check_result('dag-beta_conv', case, 'beta_conv with shared sub-object: (%s) %s' % (ref.show(r), ref.show(s_ref)), got,
                               ref.inst_bound(r[3], s_ref))
            if bad:
                return bad
    h, r = build_dag(sub_ref, ctx, wrappers)
    for inc in (1, 2):
        bad = check_result('dag-incr', case, 'incr_boundvars(%d) of %s' % (inc, ref.show(r)), h.incr_boundvars(inc), ref.shift(r, inc))
        if bad:
            return bad
        n += 1
    for var in (v('x', A), sv('x', A)):
        try:
            got = h.abstract_over(ref.to_term(var))
        except Exception:
            continue
        bad = check_result('dag-abstract', case, 'abstract_over %s of %s' % (ref.show(var), ref.show(r)), got, ref.abstract(r, var))
        if bad:
            return bad
        n += 1
    for m in ({v('x', A): ('c', 'c', A)}, {sv('x', A): v('y', A)}):
        inst = Inst()
        for a, val in m.items():
            if a[0] == 'sv':
                inst[a[1]] = ref.to_term(val)
            else:
                inst.var_inst[a[1]] = ref.to_term(val)
        try:
            got = h.subst(inst)
        except Exception:
            continue
        bad = check_result('dag-subst', case, 'subst %s on %s' % (show_map(m), ref.show(r)), got, ref.subst_free(r, m))
        if bad:
            return bad
        n += 1
    if not ref.is_open(r):
        try:
            expect = ref.beta_nf(r, 500)
            bad = check_result('dag-beta_norm', case, 'beta_norm of %s' % ref.show(r), h.beta_norm(), expect)
            if bad:
                return bad
            n += 1
        except ref.OutOfFuel:
            pass
    # the object must be unchanged by all of the above
    if ref.akey(ref.conv_term(h)) != ref.akey(r):
        return viol('dag-mutated', case, 'operations modified their argument %s' % ref.show(r))
    return Outcome('dag-ok', True, obs='d%d' % n)


# ------------------------------------------------------------------------------ histories

BASE = [v('x', A), v('y', A), ('app', ('c', 'f', fun(A, A)), v('x', A))]
HANDLES = 3


def histories(L):
    evs = []
    for h in range(HANDLES):
        for i in range(len(BASE)):
            evs.append(('new', h, i))
            evs.append(('copyctor', h, i))
        evs.append(('drop', h))
        evs.append(('hash', h))
        for h2 in range(HANDLES):
            if h2 != h:
                evs.append(('copy', h, h2))
    for h in range(HANDLES):
        for h2 in range(h + 1, HANDLES):
            evs.append(('cmp', h, h2))
    evs.append(('gc',))

    def rec(prefix, live, n):
        if n == 0:
            return
        for e in evs:
            k = e[0]
            if k in ('drop', 'hash') and e[1] not in live:
                continue
            if k == 'copy' and e[2] not in live:
                continue
            if k == 'cmp' and (e[1] not in live or e[2] not in live):
                continue
            nl = set(live)
            if k in ('new', 'copyctor', 'copy'):
                nl.add(e[1])
            elif k == 'drop':
                nl.discard(e[1])
            p = prefix + [list(e)]
            if k == 'cmp' or k == 'hash':
                yield p          # a history is judged at its observations; emit those ending in one
            if n > 1:
                yield from rec(p, nl, n - 1)
    yield from rec([], set(), L)


def run_hist(case):
    from kernel.term import Term
    hist = case[1]
    for rep in range(3):
        hs = {}
        refs = {}
        for e in hist:
            k = e[0]
            if k == 'new':
                hs[e[1]] = ref.to_term(BASE[e[2]])
                refs[e[1]] = BASE[e[2]]
            elif k == 'copyctor':
                hs[e[1]] = Term(ref.to_term(BASE[e[2]]))     # copy-construct from a temporary
                refs[e[1]] = BASE[e[2]]
            elif k == 'copy':
                hs[e[1]] = copy.copy(hs[e[2]])
                refs[e[1]] = refs[e[2]]
            elif k == 'drop':
                del hs[e[1]]
                del refs[e[1]]
            elif k == 'gc':
                gc.collect()
            elif k == 'hash':
                fresh = ref.to_term(refs[e[1]])
                if hash(hs[e[1]]) != hash(fresh):
                    return viol('hist-hash', case, 'after history %r the hash of handle %d differs from the hash of an equal fresh term' % (hist, e[1]))
            elif k == 'cmp':
                expect = ref.akey(refs[e[1]]) == ref.akey(refs[e[2]])
                got = hs[e[1]] == hs[e[2]]
                got2 = hs[e[2]] == hs[e[1]]
                if got != expect or got2 != expect:
                    return viol('hist-eq', case, 'after history %r: %s == %s returned %s/%s' % (
                        hist, ref.show(refs[e[1]]), ref.show(refs[e[2]]), got, got2))
    return Outcome('hist-ok', True, obs='h')


_TIER = ['quick']


def run(case):
    k = case[0]
    tier = _TIER[0]
    if k == 'pairs':
        return run_pairs(case, tier)
    if k == 'triples':
        return run_triples(case, tier)
    if k == 'types':
        return run_types(case)
    if k == 'ops':
        return run_ops(case, tier)
    if k == 'dag':
        return run_dag(case)
    return run_hist(case)


_setup0 = setup


def setup(tier):  # noqa
    _TIER[0] = tier
    _setup0(tier)
