"""C17 — congruence closure decides exactly the equalities entailed by the merges.

E2 over merge sequences: a state is the sequence of merges that reaches it (replayed on a fresh real
object), transitions are the merges of the menu; after every transition all pairs are queried with
test / explain (interleaved queries), compared with a naive fixpoint closure, and the structure must be
unchanged by the queries.  The HOL wrapper is explored the same way over curried terms, every returned
explanation is exported and checked by the kernel.
"""
import itertools

from mc import ref
from mc.engine import Outcome, tier_param

ID = 'C17'
LEVEL = 'model_checking'
RULE = ('all sequences of <=L merges over constants {a,b,c} (thorough also {a,b,c,d}) of the equations x=y (both orientations, x=x '
        'included) and f(x,y)=z; after every prefix: test on all pairs, explain on all entailed pairs, structure snapshot before/after '
        'the queries; HOL wrapper: all sequences of <=3 merges out of a menu of equations between curried terms of depth<=3, test + '
        'explain + kernel check after every prefix. States are not merged (order independence is the thing checked): '
        'states = transitions = prefixes executed. distinct_nontrivial = prefixes after which at least one non-trivial equality was entailed '
        'and explained.')
ASSUMPTIONS = ['oracle: naive fixpoint congruence closure (union-find + congruence rule until stable) on the finite universe of the '
               'terms that occur, which is complete for ground EUF']


def bounds(tier):
    return tier_param(tier, {'flat_consts': 3, 'flat_len': 4, 'hol_len': 3}, {'flat_consts': '3 (len 5), 4 (len 4)', 'flat_len': 5, 'hol_len': 3})


# ------------------------------------------------------------------------------ naive closure (flat)

def naive_closure(consts, eqs):
    parent = {c: c for c in consts}

    def find(x):
        while parent[x] != x:
            x = parent[x]
        return x

    def union(x, y):
        rx, ry = find(x), find(y)
        if rx != ry:
            parent[rx] = ry
            return True
        return False
    combs = []
    for s, t in eqs:
        if isinstance(s, str):
            union(s, t)
        else:
            combs.append((s, t))
    changed = True
    while changed:
        changed = False
        for (a1, a2), a in combs:
            for (b1, b2), b in combs:
                if find(a1) == find(b1) and find(a2) == find(b2) and find(a) != find(b):
                    union(a, b)
                    changed = True
    return find


def flat_menu(consts):
    eqs = []
    for x in consts:
        for y in consts:
            eqs.append((x, y))
    for x in consts:
        for y in consts:
            for z in consts:
                eqs.append(((x, y), z))
    return eqs


def snapshot(cc):
    return (dict(cc.rep), {k: list(v) for k, v in cc.class_list.items()}, {k: list(v) for k, v in cc.use_list.items()},
            dict(cc.lookup), dict(cc.proof_forest), list(cc.comb_eqs), list(cc.pending.queue))


def check_flat_explanation(expl, s, t, merged):
    """returns None if fine else message"""
    const_eqs = set(e for e in merged if isinstance(e[0], str))
    comb_eqs = set(e for e in merged if not isinstance(e[0], str))
    if (s, t) not in expl:
        return 'no entry for the queried pair'
    for (u, w), path in expl.items():
        cur = u
        for lab in path:
            if lab[0] == 0:
                _, a, b = lab
                if (a, b) not in const_eqs:
                    return 'uses the equation %s = %s which was never merged' % (a, b)
            else:
                _, (sa, a), (sb, b) = lab
                if (sa, a) not in comb_eqs or (sb, b) not in comb_eqs:
                    return 'uses an application equation that was never merged: %r / %r' % ((sa, a), (sb, b))
                for x, y in zip(sa, sb):
                    if x != y and (x, y) not in expl:
                        return 'congruence step %r ~ %r without an explanation of %s = %s' % (sa, sb, x, y)
            if a == cur:
                cur = b
            elif b == cur:
                cur = a
            else:
                return 'path for (%s, %s) is not connected at %r' % (u, w, lab)
        if cur != w:
            return 'path for (%s, %s) ends at %s' % (u, w, cur)
    return None


def show_eq(e):
    s, t = e
    if isinstance(s, str):
        return '%s = %s' % (s, t)
    return 'f(%s,%s) = %s' % (s[0], s[1], t)


def viol(kind, case, what):
    return Outcome(kind.upper(), violation={'signature': kind + ':' + repr(case), 'what': what})


def run_flat(consts, seq):
    """execute the sequence on a fresh real object; judge the state reached (last prefix only)"""
    from prover import congc
    cc = congc.CongClosure()
    case = ['flat', [show_eq(e) for e in seq]]
    try:
        for s, t in seq:
            cc.merge(s, t)
    except Exception as e:
        return viol('merge-exc', case, 'merge raised %s: %s after %s' % (type(e).__name__, e, case[1]))
    find = naive_closure(consts, seq)
    known = [c for c in consts if c in cc.rep]
    before = snapshot(cc)
    nontriv = False
    for x in known:
        for y in known:
            try:
                got = cc.test(x, y)
            except Exception as e:
                return viol('test-exc', case, 'test(%s,%s) raised %s' % (x, y, e))
            expect = find(x) == find(y)
            if got != expect:
                return viol('test-wrong', case, 'after merging %s: test(%s,%s) = %s but the equality is %sentailed' % (
                    case[1], x, y, got, '' if expect else 'not '))
            if expect and x != y:
                nontriv = True
                try:
                    expl = cc.explain(x, y)
                except Exception as e:
                    return viol('explain-exc', case, 'explain(%s,%s) raised %s: %s after %s' % (x, y, type(e).__name__, e, case[1]))
                msg = check_flat_explanation(expl, x, y, seq)
                if msg:
                    return viol('explain-wrong', case, 'after merging %s: explanation of %s = %s %s' % (case[1], x, y, msg))
    if snapshot(cc) != before:
        return viol('query-mutates', case, 'test/explain modified the structure after %s' % (case[1],))
    return Outcome('flat-entailing' if nontriv else 'flat-trivial', nontriv)


# ------------------------------------------------------------------------------ HOL wrapper

def hol_terms():
    from kernel.type import TVar, TFun
    from kernel.term import Var
    Ta = TVar('a')
    a, b, c = Var('a', Ta), Var('b', Ta), Var('c', Ta)
    f = Var('f', TFun(Ta, Ta))
    g = Var('g', TFun(Ta, Ta, Ta))
    return a, b, c, f, g


def hol_menu():
    a, b, c, f, g = hol_terms()
    from kernel.term import Eq
    pairs = [(a, b), (b, a), (b, c), (f(a), b), (f(a), a), (f(f(a)), a), (f(f(f(a))), a), (g(a, b), c), (g(b, a), c), (f(b), c), (a, f(b)),
             (g(a, a), f(a))]
    return pairs


def hol_queries():
    a, b, c, f, g = hol_terms()
    return [a, b, c, f(a), f(b), f(c), f(f(a)), f(f(b)), g(a, b), g(b, a), g(a, a), g(b, b), g(f(a), b), f(g(a, b)), f(g(b, a))]


def hol_naive(eqs, queries):
    """naive closure on the subterm-closed universe"""
    U = []

    def add(t):
        if t not in U:
            U.append(t)
            if t.is_comb():
                add(t.fun)
                add(t.arg)
    for s, t in eqs:
        add(s)
        add(t)
    for q in queries:
        add(q)
    parent = list(range(len(U)))

    def find(i):
        while parent[i] != i:
            i = parent[i]
        return i
    idx = {}
    for i, t in enumerate(U):
        idx[t] = i
    for s, t in eqs:
        parent[find(idx[s])] = find(idx[t])
    apps = [i for i, t in enumerate(U) if t.is_comb()]
    changed = True
    while changed:
        changed = False
        for i in apps:
            for j in apps:
                if i < j and find(i) != find(j) and find(idx[U[i].fun]) == find(idx[U[j].fun]) and find(idx[U[i].arg]) == find(idx[U[j].arg]):
                    parent[find(i)] = find(j)
                    changed = True
    return lambda s, t: find(idx[s]) == find(idx[t])


def run_hol(seq_idx, with_pt):
    from prover import congc
    from kernel.term import Eq
    from kernel.proofterm import ProofTerm
    from kernel import theory, report
    menu = hol_menu()
    seq = [menu[i] for i in seq_idx]
    case = ['hol', ['%s = %s' % (s.print_basic(), t.print_basic()) for s, t in seq], with_pt]
    cc = congc.CongClosureHOL()
    try:
        for s, t in seq:
            cc.merge(s, t, pt=ProofTerm.assume(Eq(s, t)) if with_pt else None)
    except Exception as e:
        return viol('hol-merge-exc', case, 'merge raised %s: %s' % (type(e).__name__, e))
    queries = hol_queries()
    same = hol_naive(seq, queries)
    merged = [Eq(s, t) for s, t in seq]
    nontriv = False
    for qi, x in enumerate(queries):
        for y in queries[qi:]:
            try:
                got = cc.test(x, y)
            except Exception as e:
                return viol('hol-test-exc', case, 'test raised %s: %s' % (type(e).__name__, e))
            expect = same(x, y)
            if got != expect:
                return viol('hol-test-wrong', case, 'after merging %s: test(%s, %s) = %s but the equality is %sentailed' % (
                    case[1], x.print_basic(), y.print_basic(), got, '' if expect else 'not '))
            if not expect:
                continue
            if x is not y:
                nontriv = True
            for (p, q) in ((x, y), (y, x)):
                try:
                    pt = cc.explain(p, q)
                except Exception as e:
                    return viol('hol-explain-exc', case, 'after merging %s the equality %s = %s is entailed (test says so) but explain raises %s: %s' % (
                        case[1], p.print_basic(), q.print_basic(), type(e).__name__, e))
                try:
                    rpt = report.ProofReport()
                    th = theory.check_proof(pt.export(), rpt)
                except Exception as e:
                    return viol('hol-explain-unchecked', case, 'explanation of %s = %s after %s is rejected by the checker: %s' % (
                        p.print_basic(), q.print_basic(), case[1], e))
                if th.prop != Eq(p, q):
                    return viol('hol-explain-concl', case, 'explanation of %s = %s proves %s' % (p.print_basic(), q.print_basic(), th.prop.print_basic()))
                just = list(th.hyps) + [g.prop for g in rpt.gaps]
                for h in just:
                    if h not in merged:
                        return viol('hol-explain-hyps', case, 'explanation of %s = %s after %s depends on %s, which is not a merged equation' % (
                            p.print_basic(), q.print_basic(), case[1], h.print_basic()))
                if with_pt and rpt.gaps:
                    return viol('hol-explain-gaps', case, 'explanation has gaps although every merge came with a proof')
    return Outcome('hol-entailing' if nontriv else 'hol-trivial', nontriv)


# ------------------------------------------------------------------------------ exploration

def setup(tier):
    from logic import basic
    basic.load_theory('logic_base')


def explore(tier, shard, nshards, agg):
    plans = [(['a', 'b', 'c'], tier_param(tier, 4, 5))]
    if tier == 'thorough':
        plans.append((['a', 'b', 'c', 'd'], 4))
    k = 0
    for consts, L in plans:
        menu = flat_menu(consts)
        for n in range(1, L + 1):
            for seq in itertools.product(menu, repeat=n):
                k += 1
                if k % nshards != shard:
                    continue
                out = run_flat(consts, list(seq))
                agg.states += 1
                agg.transitions += 1
                need = out.violation is not None or len(agg.samples.get(out.cls, ())) < 2
                agg.add([show_eq(e) for e in seq] if need else None, out)
    m = len(hol_menu())
    for n in range(1, tier_param(tier, 3, 3) + 1):
        for seq in itertools.product(range(m), repeat=n):
            for with_pt in (True, False):
                k += 1
                if k % nshards != shard:
                    continue
                out = run_hol(seq, with_pt)
                agg.states += 1
                agg.transitions += 1
                need = out.violation is not None or len(agg.samples.get(out.cls, ())) < 2
                agg.add(['hol', list(seq), with_pt] if need else None, out)


def replay(case):
    print(case)
    return 0
