"""C15 — SAT verdicts and certificates, Tseitin encoding.  E1, brute-force oracle."""
import itertools

from mc.engine import Outcome, tier_param

ID = 'C15'
LEVEL = 'exploration'
RULE = ('all CNFs as ordered lists of ordered clauses over variables {a,b,c} (all literal sequences incl. the empty '
        'clause, duplicate and complementary literals) up to the tier bound, each given to prover.sat.solve_cnf; '
        'all propositional formulas up to the tier bound over atoms {p,q,x1,x2} given to tseitin.encode. '
        'Non-trivial = distinct case on which the solver returned a verdict that the truth-table oracle judged '
        '(CNF with >=1 clause) resp. an encoding that was checked by the kernel.')
ASSUMPTIONS = ['oracle: 8-row truth table and own resolution replay',
               'decision order of solve_cnf depends on str hashing: fixed by PYTHONHASHSEED; the space is closed under '
               'renaming of variables, so every decision order relative to clause structure is covered']
WALL_S = 5.0
LINE_BUDGET = 30000000
VARS = ['a', 'b', 'c']
LITS = [(v, s) for v in VARS for s in (True, False)]


def bounds(tier):
    return tier_param(tier,
                      {'cnf': 'len<=2 clauses, <=4 clauses; len<=3 clauses, <=2 clauses', 'tseitin_connectives': 2},
                      {'cnf': 'len<=2 clauses, <=5 clauses (5th clause unit/empty); len<=3 clauses, <=3 clauses', 'tseitin_connectives': 3})


def clauses_upto(k):
    res = []
    for n in range(k + 1):
        for c in itertools.product(range(6), repeat=n):
            res.append(list(c))
    return res


def cnf_cases(tier):
    c2 = clauses_upto(2)
    c3 = clauses_upto(3)
    c1 = clauses_upto(1)
    seen3 = set()
    nmax2 = 4
    for n in range(nmax2 + 1):
        for cnf in itertools.product(c2, repeat=n):
            yield ['cnf', [list(c) for c in cnf]]
    # longer clauses (only those CNFs that contain a clause of length 3, the rest was covered)
    nmax3 = tier_param(tier, 2, 3)
    for n in range(1, nmax3 + 1):
        for cnf in itertools.product(c3, repeat=n):
            if any(len(c) == 3 for c in cnf):
                yield ['cnf', [list(c) for c in cnf]]
    if tier == 'thorough':
        for cnf in itertools.product(c2, repeat=4):
            for c in c1:
                yield ['cnf', [list(x) for x in cnf] + [list(c)]]


# formulas: nested lists ['v', name] | ['not', f] | [op, f, g]
OPS = ['conj', 'disj', 'imp', 'eq']
ATOMS = ['p', 'q', 'x1', 'x2']


def formulas(n):
    """all formulas with exactly n connectives"""
    if n == 0:
        return [['v', a] for a in ATOMS]
    res = []
    for f in formulas(n - 1):
        res.append(['not', f])
    for k in range(n):
        for f in formulas(k):
            for g in formulas(n - 1 - k):
                for op in OPS:
                    res.append([op, f, g])
    return res


def cases(tier):
    yield from cnf_cases(tier)
    for n in range(tier_param(tier, 2, 3) + 1):
        for f in formulas(n):
            yield ['tseitin', f]


def setup(tier):
    from logic import basic
    basic.load_theory('sat')


def on_hang(case):
    return Outcome('HANG', violation={'signature': 'hang:' + repr(case), 'what': 'solver/encoder does not terminate on %r' % (case,)},
                   obs='HANG')


# ---------------------------------------------------------------------------------- oracle

def truth_sat(cnf):
    for vals in itertools.product((False, True), repeat=3):
        env = dict(zip(VARS, vals))
        if all(any(env[x] == s for x, s in cl) for cl in cnf):
            return env
    return None


def resolvents(c1, c2):
    """all standard resolvents of two clauses (frozensets of literals)"""
    res = set()
    for (x, s) in c1:
        if (x, not s) in c2:
            res.add(frozenset((c1 - {(x, s)}) | (c2 - {(x, not s)})))
    return res


def check_trace(cnf, proofs):
    """Replay the trace with my own resolution.  Returns None if fine, else a message."""
    poss = [{frozenset(cl)} for cl in cnf]  # possible readings of each clause
    if not isinstance(proofs, dict) or not proofs:
        return 'no trace'
    ids = sorted(proofs.keys())
    if ids != list(range(len(cnf), len(cnf) + len(ids))):
        return 'learned clause ids are not consecutive: %r' % (ids,)
    for new_id in ids:
        chain = proofs[new_id]
        if not chain or any((not isinstance(i, int)) or i < 0 or i >= new_id for i in chain):
            return 'chain of %d names a clause that does not exist yet: %r' % (new_id, chain)
        cur = set(poss[chain[0]])
        for i in chain[1:]:
            nxt = set()
            for c1 in cur:
                for c2 in poss[i]:
                    nxt |= resolvents(c1, c2)
            if not nxt:
                return 'step of chain %r for clause %d is not a resolution' % (chain, new_id)
            if len(nxt) > 64:
                nxt = set(sorted(nxt, key=lambda s: (len(s), sorted(s)))[:64])
            cur = nxt
        poss.append(cur)
    if frozenset() not in poss[-1]:
        return 'last learned clause is not empty: %r' % (sorted(map(sorted, poss[-1])),)
    return None


def run_cnf(case):
    from prover import sat
    cnf = [[LITS[i] for i in cl] for cl in case[1]]
    orig = [list(cl) for cl in cnf]
    try:
        res = sat.solve_cnf(cnf)
    except RecursionError:
        return Outcome('RecursionError', violation={'signature': 'recursion:' + repr(case), 'what': 'RecursionError on %s' % sat.str_of_cnf(orig)}, obs='RE')
    except Exception as e:
        return Outcome('exception', violation={'signature': 'exc:' + repr(case),
                                               'what': 'solve_cnf raised %s: %s on %s' % (type(e).__name__, e, sat.str_of_cnf(orig))},
                       obs='EXC:' + type(e).__name__)
    if cnf != orig:
        return Outcome('input-modified', violation={'signature': 'mod:' + repr(case), 'what': 'solve_cnf modified its input'}, obs='MOD')
    verdict, cert = res
    model = truth_sat(orig)
    nontriv = len(orig) > 0
    if verdict == 'satisfiable':
        ok = isinstance(cert, dict) and all(any(cert.get(x) == s for x, s in cl) for cl in orig)
        if model is None or not ok:
            return Outcome('sat-wrong', violation={
                'signature': 'sat-wrong:' + repr(case),
                'what': "'satisfiable' with assignment %r which does not satisfy %s" % (cert, sat.str_of_cnf(orig)),
                'expected': 'unsatisfiable' if model is None else 'a satisfying assignment'}, obs='S!')
        return Outcome('satisfiable', nontriv, obs='S' + repr(sorted(cert.items())))
    elif verdict == 'unsatisfiable':
        if model is not None:
            return Outcome('unsat-wrong', violation={
                'signature': 'unsat-wrong:' + repr(case),
                'what': "'unsatisfiable' on %s although %r satisfies it" % (sat.str_of_cnf(orig), model)}, obs='U!')
        msg = check_trace(orig, cert)
        if msg is not None:
            return Outcome('bad-trace', violation={
                'signature': 'trace:' + repr(case),
                'what': 'resolution trace of %s invalid: %s (trace %r)' % (sat.str_of_cnf(orig), msg, cert)}, obs='T!')
        return Outcome('unsatisfiable', nontriv, obs='U' + repr(sorted(cert.items())))
    return Outcome('bad-verdict', violation={'signature': 'verdict:' + repr(case), 'what': 'verdict %r' % (verdict,)}, obs='V!')


def to_term(f):
    from kernel.type import BoolType
    from kernel.term import Var, And, Or, Not, Implies, Eq
    if f[0] == 'v':
        return Var(f[1], BoolType)
    if f[0] == 'not':
        return Not(to_term(f[1]))
    a, b = to_term(f[1]), to_term(f[2])
    return {'conj': And, 'disj': Or, 'imp': Implies, 'eq': Eq}[f[0]](a, b)


def feval(f, env):
    if f[0] == 'v':
        return env[f[1]]
    if f[0] == 'not':
        return not feval(f[1], env)
    a, b = feval(f[1], env), feval(f[2], env)
    return {'conj': a and b, 'disj': a or b, 'imp': (not a) or b, 'eq': a == b}[f[0]]


def fsat(f):
    return any(feval(f, dict(zip(ATOMS, vals))) for vals in itertools.product((False, True), repeat=4))


def run_tseitin(case):
    from kernel import theory, report
    from prover import tseitin
    f = case[1]
    t = to_term(f)
    try:
        pt = tseitin.encode(t)
    except RecursionError:
        return Outcome('encode-recursion', violation={'signature': 'ts-rec:' + repr(f), 'what': 'RecursionError in encode(%s)' % t}, obs='RE')
    except Exception as e:
        # The statement promises an encoding for every propositional formula
        return Outcome('encode-raises', violation={'signature': 'ts-exc:' + repr(f),
                                                   'what': 'tseitin.encode(%s) raised %s: %s' % (t, type(e).__name__, e)},
                       obs='EXC' + type(e).__name__)
    try:
        rpt = report.ProofReport()
        th = theory.check_proof(pt.export(), rpt)
    except Exception as e:
        return Outcome('encode-unchecked', violation={'signature': 'ts-chk:' + repr(f),
                                                      'what': 'encoding of %s rejected by the checker: %s' % (t, e)}, obs='CHK!')
    if th != pt.th or len(rpt.gaps) > 0:
        return Outcome('encode-mismatch', violation={'signature': 'ts-mis:' + repr(f), 'what': 'checker result %s differs from %s' % (th, pt.th)}, obs='MIS')
    # shape: F among hyps, all other hyps equations var = ...
    if t not in pt.hyps:
        return Outcome('encode-shape', violation={'signature': 'ts-hyp:' + repr(f), 'what': 'formula %s is not a hypothesis of its encoding %s' % (t, pt.th)}, obs='SH')
    # conclusion in CNF
    try:
        cnf = tseitin.convert_cnf(pt.prop)
        for cl in pt.prop.strip_conj():
            for lit in cl.strip_disj():
                a = lit.arg if lit.is_not() else lit
                assert a.is_var(), 'literal %s' % lit
    except Exception as e:
        return Outcome('encode-not-cnf', violation={'signature': 'ts-cnf:' + repr(f), 'what': 'conclusion of encode(%s) is not a CNF: %s (%s)' % (t, pt.prop, e)}, obs='NCNF')
    names = sorted(set(x for cl in cnf for x, _ in cl))
    if len(names) > 14:
        return Outcome('tseitin-too-many-vars', obs='BIG')
    cs = False
    for vals in itertools.product((False, True), repeat=len(names)):
        env = dict(zip(names, vals))
        if all(any(env[x] == s for x, s in cl) for cl in cnf):
            cs = True
            break
    fs = fsat(f)
    if cs != fs:
        return Outcome('not-equisat', violation={
            'signature': 'ts-eq:' + repr(f),
            'what': 'CNF of encode(%s) is %ssatisfiable but the formula is %ssatisfiable; cnf=%s' % (
                t, '' if cs else 'un', '' if fs else 'un', pt.prop)}, obs='NEQ')
    return Outcome('tseitin-ok-' + ('sat' if fs else 'unsat'), True, obs='TS' + str(pt.th))


def run(case):
    if case[0] == 'cnf':
        return run_cnf(case)
    return run_tseitin(case)
