"""C19 — every integration-calculator step preserves the value of the expression.  E1 over every recorded step of the example
calculations and generated expressions x parameter-free rules; oracle: mpmath evaluation on a deterministic grid (mc/intnum.py)."""
import itertools
import json
import os

from mc.engine import Outcome, tier_param, REPO
from mc import intnum

ID = 'C19'
LEVEL = 'exploration'
WALL_S = 240.0
LINE_BUDGET = 900000000
MAX_HANGS = 3
RULE = ('(a) every step of every calculation (also inside goal proofs, induction, case and rewrite proofs) of every example file '
        'reachable from the five books of integral/examples: the rule is re-applied to the recorded previous expression with the '
        'context the calculation had, and the value of the result is compared with the value of the previous expression at every '
        'admissible point of a grid of parameter values (conditions of the context filter the grid); equations are compared by their '
        'residual, antiderivatives by their increments; the recorded result is compared in the same way. (b) generated: every '
        'expression with <= 2 operators over {x, a, 1, 2, 1/2, pi} and {+, -, *, /, ^, sin, cos, exp, log, sqrt, atan, abs}: '
        'FullSimplify / Simplify keep the value and are idempotent, deriv agrees with numeric differentiation, printing and parsing '
        'returns the same expression; definite integrals of these over [0,1], [1,2], [0,oo) with Linearity, DefiniteIntegralIdentity, '
        'SplitRegion, Substitution (u = 2x, x+1, x^2, 1/x, -x), SubstitutionInverse, IntegrationByParts (factor pairs), ElimInfInterval; '
        'limits with LHopital / ReduceLimit; derivatives of integrals with variable bounds; constructor-built negative constants printed and '
        'parsed; thorough: integrands with two operators over three ranges with the parameter-free rules and three substitutions. A step is a violation only if the two values differ by more than 1e-6 (relative) at an '
        'admissible grid point (Equation on every ordered pair of expressions with <= 1 operator; every recorded Equation / '
        'Substitution / SubstitutionInverse / SplitRegion / IntegrationByParts / ElimInfInterval step also with changed parameters), with quadrature error estimates below 1e-9, and the difference persists at 50 digits.')
ASSUMPTIONS = ['mpmath evaluation with error estimates; values that cannot be computed reliably (divergent or slowly convergent '
               'integrals and series, unknown functions, complex values) make a step undecided, never a violation']

BOOKS = ['base', 'tongji', 'UCDavis', 'MIT', 'interesting']
COUNTS = {}


def cnt(k, n=1):
    COUNTS[k] = COUNTS.get(k, 0) + n


def bounds(tier):
    return tier_param(tier, {'example_files': 'all reachable from the five books', 'grid_points_per_step': 3, 'generated_ops': 1},
                      {'example_files': 'all reachable from the five books', 'grid_points_per_step': 6, 'generated_ops': 2})


def example_files():
    R = os.path.join(REPO, 'integral', 'examples')
    seen = []
    for book in BOOKS:
        try:
            info = json.load(open(os.path.join(R, book + '.json'), encoding='utf-8'))
        except Exception:
            continue
        for it in info.get('content', []):
            p = it.get('path')
            if p and (book, p) not in seen and not any(q == p for _, q in seen) and os.path.exists(os.path.join(R, p + '.json')):
                seen.append((book, p))
    return seen


def cases(tier):
    for book, p in example_files():
        yield ['file', book, p]
    for fam, n in gen_families(tier):
        # one expression per case for the simplification family: a case ends at its first violation, and a listed known
        # finding must not hide its neighbours
        step = 1 if fam == 'simplify' else (10 if fam == 'integral' else (5 if fam == 'integral2' else (400 if fam == 'equation' else 30)))
        for i in range(0, n, step):
            yield ['gen', fam, i, min(i + step, n)]


# ------------------------------------------------------------------------------ comparison

INT_NAMES = {'n', 'm', 'k', 'N', 'i', 'j'}


def grid(vars_, conds, ev, npoints):
    """deterministic admissible valuations"""
    m = ev.m
    real_vals = [m.mpf(3) / 10, m.mpf(17) / 10, m.mpf(4) / 5, m.mpf(23) / 10, -m.mpf(1) / 2, m.mpf(5) / 2]
    int_vals = [m.mpf(2), m.mpf(1), m.mpf(3), m.mpf(4), m.mpf(0), m.mpf(5)]
    names = sorted(vars_)
    out = []
    # diagonal-ish enumeration: rotate value lists per variable so that different variables get different values
    for shift in range(len(real_vals) * 2):
        env = {}
        for i, nm in enumerate(names):
            vals = int_vals if nm in INT_NAMES else real_vals
            env[nm] = vals[(shift + 2 * i) % len(vals)] if shift < len(real_vals) else vals[(shift + i) % len(vals)]
        ok = True
        for c in conds:
            h = intnum.holds(ev, c, env)
            if h is False:
                ok = False
                break
        if ok and env not in out:
            out.append(env)
        if len(out) >= npoints:
            break
    return out


def has_node(e, pred):
    if pred(e):
        return True
    for attr in ('args',):
        for a in getattr(e, attr, ()) or ():
            if has_node(a, pred):
                return True
    for attr in ('body', 'lower', 'upper', 'lim'):
        a = getattr(e, attr, None)
        if a is not None and hasattr(a, 'ty') and has_node(a, pred):
            return True
    return False


def is_relation(e):
    return e.is_op() and len(e.args) == 2 and e.op in ('=', '!=', '<', '<=', '>', '>=')


def value(ev, e, env, antider_var):
    """value of e; for expressions with antiderivatives, the increment between two points of the integration variable"""
    if antider_var is None:
        return ev.val(e, env)
    m = ev.m
    x0 = env.get(antider_var, m.mpf(1))
    e1 = dict(env)
    e1['#base:' + antider_var] = x0
    e1[antider_var] = x0 + m.mpf(1) / 4
    e0 = dict(e1)
    e0[antider_var] = x0
    return ev.val(e, e1) - ev.val(e, e0)


def antider_var_of(*es):
    found = []

    def visit(e):
        if e.is_indefinite_integral():
            found.append(e.var)
        return False
    for e in es:
        has_node(e, visit)
    return found[0] if found else None


def compare(prev, new, ctx, npoints, what):
    """-> ('agree'|'undecided'|'differ', detail)"""
    try:
        conds = list(ctx.get_conds().data)
    except Exception:
        conds = []
    try:
        defs = [(d.lhs, d.rhs) for d in ctx.get_definitions()]
    except Exception:
        defs = []
    ev = intnum.Ev(defs, dps=30)
    try:
        vars_ = set(prev.get_vars()) | set(new.get_vars())
    except Exception:
        return 'undecided', 'variables'
    av = antider_var_of(prev, new)
    if has_node(prev, lambda e: e.is_skolem_func()) or has_node(new, lambda e: e.is_skolem_func()):
        if av is None:
            # constant of integration without an integral sign: compare increments in the only variable
            cand = sorted(v for v in vars_ if v not in INT_NAMES)
            if len(cand) != 1:
                return 'undecided', 'skolem constant'
            av = cand[0]
    if av is not None:
        vars_.add(av)
    pts = grid(vars_, conds, ev, npoints)
    if not pts:
        return 'undecided', 'no admissible grid point'
    rel = is_relation(prev) and is_relation(new)
    if is_relation(prev) != is_relation(new):
        return 'undecided', 'relation vs term'
    if rel and (prev.op != '=' or new.op != '='):
        return 'undecided', 'inequation'
    decided = 0
    for env in pts:
        try:
            if rel:
                r0 = value(ev, prev.args[0], env, av) - value(ev, prev.args[1], env, av)
                if abs(r0) > ev.m.mpf(10) ** (-7):
                    continue        # the previous equation does not hold here numerically: nothing to preserve
                v0 = ev.m.mpf(0)
                v1 = value(ev, new.args[0], env, av) - value(ev, new.args[1], env, av)
                scale = max(1, abs(value(ev, new.args[0], env, av)))
            else:
                v0 = value(ev, prev, env, av)
                v1 = value(ev, new, env, av)
                scale = max(1, abs(v0))
        except intnum.Undecided:
            continue
        except RecursionError:
            continue
        except Exception:
            continue
        if ev.m.isinf(v0) or ev.m.isinf(v1):
            continue
        decided += 1
        if abs(v0 - v1) > ev.m.mpf(10) ** (-6) * scale:
            # confirm at higher precision
            ev2 = intnum.Ev(defs, dps=50)
            env2 = {k: ev2.m.mpf(v) for k, v in env.items()}
            try:
                if rel:
                    w0 = ev2.m.mpf(0)
                    w1 = value(ev2, new.args[0], env2, av) - value(ev2, new.args[1], env2, av)
                else:
                    w0 = value(ev2, prev, env2, av)
                    w1 = value(ev2, new, env2, av)
            except Exception:
                continue
            if abs(w0 - w1) > ev2.m.mpf(10) ** (-6) * max(1, abs(w0)):
                where = ', '.join('%s = %s' % (k, ev.m.nstr(v, 6)) for k, v in sorted(env.items()) if not k.startswith('#'))
                return 'differ', '%s: at %s the value %s %s, after the step %s' % (
                    what, where or 'the only point', 'of the residual is' if rel else 'is', ev.m.nstr(w0, 12), ev.m.nstr(w1, 12))
    return ('agree', decided) if decided else ('undecided', 'no decided grid point')


def viol(kind, key, what):
    return Outcome(kind.upper(), violation={'signature': kind + ':' + key, 'what': what})


# ------------------------------------------------------------------------------ example files

def calcs(item):
    from integral import compstate
    if isinstance(item, compstate.Calculation):
        yield item
    for attr in ('proof', 'lhs_calc', 'rhs_calc', 'base_case', 'induct_case', 'case_1', 'case_2', 'begin'):
        sub = getattr(item, attr, None)
        if sub is not None and sub is not item and isinstance(sub, compstate.StateItem):
            yield from calcs(sub)
    for sub in getattr(item, 'sub_goals', None) or []:
        yield from calcs(sub)


def rule_variants(rule):
    """the recorded rule with one parameter changed: (tag, rule object)"""
    from integral import rules, expr, parser
    name = type(rule).__name__
    out = []
    try:
        if name == 'Equation':
            n = rule.new_expr
            for tag, e2 in (('new expression + 1', n + expr.Const(1)), ('2 * new expression', expr.Const(2) * n), ('- new expression', -n)):
                out.append((tag, rules.Equation(rule.old_expr, e2)))
        elif name == 'Substitution':
            v = rule.var_name
            for g in ('x ^ 2', '1 / x', 'sin(x)', '-x', 'x - 1', '2 * x'):
                out.append(('u = ' + g, rules.Substitution(v, parser.parse_expr(g))))
            out.append(('u = recorded ^ 2', rules.Substitution(v, rule.var_subst ** expr.Const(2))))
            out.append(('u = 1 / recorded', rules.Substitution(v, expr.Const(1) / rule.var_subst)))
        elif name == 'SubstitutionInverse':
            v = rule.var_name
            out.append(('x = recorded ^ 2', rules.SubstitutionInverse(v, rule.var_subst ** expr.Const(2))))
            out.append(('x = 1 / recorded', rules.SubstitutionInverse(v, expr.Const(1) / rule.var_subst)))
            out.append(('x = - recorded', rules.SubstitutionInverse(v, -rule.var_subst)))
        elif name == 'SplitRegion':
            for c in ('0', '1', '-1', '1/2', '3', 'pi'):
                out.append(('c = ' + c, rules.SplitRegion(c)))
        elif name == 'IntegrationByParts':
            out.append(('u and v exchanged', rules.IntegrationByParts(rule.v, rule.u)))
            out.append(('v + 1', rules.IntegrationByParts(rule.u, rule.v + expr.Const(1))))
            out.append(('2 * v', rules.IntegrationByParts(rule.u, expr.Const(2) * rule.v)))
            out.append(('u ^ 2', rules.IntegrationByParts(rule.u ** expr.Const(2), rule.v)))
        elif name == 'ElimInfInterval':
            for a in ('0', '1', '-1', '2'):
                out.append(('a = ' + a, rules.ElimInfInterval(parser.parse_expr(a))))
    except Exception:
        pass
    return out


def run_file(case, tier):
    import io
    import contextlib
    from integral import compstate, context
    book, path = case[1], case[2]
    npoints = bounds(tier)['grid_points_per_step']
    try:
        with contextlib.redirect_stdout(io.StringIO()):
            file = compstate.CompFile(book, path)
            data = json.load(open(os.path.join(REPO, 'integral', 'examples', path + '.json'), encoding='utf-8'))
            for x in data['content']:
                file.add_item(compstate.parse_item(file, x))
    except RecursionError:
        return Outcome('file-not-readable')
    except Exception:
        return Outcome('file-not-readable')
    n_agree = 0
    for ii, item in enumerate(file.content):
        for ci, c in enumerate(calcs(item)):
            prev = c.start
            ctx = context.Context(c.ctx)
            for si, st in enumerate(c.steps):
                rname = type(st.rule).__name__
                cnt('recorded steps')
                new = None
                try:
                    with contextlib.redirect_stdout(io.StringIO()):
                        new = st.rule.eval(prev, ctx)
                except RecursionError:
                    cnt('recorded steps: rule raises')
                except Exception:
                    cnt('recorded steps: rule raises')
                if new is not None:
                    where = '%s item %d calculation %d step %d (%s: %s)' % (path, ii, ci, si, rname, str(st.rule)[:80])
                    res, detail = compare(prev, new, ctx, npoints, where)
                    cnt('recorded steps: ' + res)
                    cnt('rule %s: %s' % (rname, res))
                    if res == 'differ':
                        return viol('value-changes', '%s/%d/%d/%d %s' % (path, ii, ci, si, rname),
                                    'from %s the rule gives %s. %s' % (str(prev)[:300], str(new)[:300], detail))
                    if res == 'agree':
                        n_agree += 1
                # near misses of the recorded step: the same rule with a changed parameter must either refuse or still keep the value
                for tag, r2 in rule_variants(st.rule):
                    cnt('recorded steps: parameter variants tried')
                    try:
                        with contextlib.redirect_stdout(io.StringIO()):
                            new2 = r2.eval(prev, ctx)
                    except RecursionError:
                        continue
                    except Exception:
                        continue
                    if new2 == prev:
                        continue
                    where = '%s item %d calculation %d step %d (%s with %s)' % (path, ii, ci, si, rname, tag)
                    res, detail = compare(prev, new2, ctx, npoints, where)
                    cnt('recorded steps: parameter variants ' + res)
                    if res == 'differ':
                        return viol('value-changes', '%s/%d/%d/%d %s variant %s' % (path, ii, ci, si, rname, tag),
                                    'from %s the rule %s (%s) gives %s. %s' % (str(prev)[:300], rname, tag, str(new2)[:300], detail))
                try:
                    ctx.extend_substs(st.rule.get_substs())
                except Exception:
                    pass
                prev = st.res
    return Outcome('steps-agree' if n_agree else 'nothing-decided', n_agree > 0, obs='%s:%d' % (path, n_agree))


# ------------------------------------------------------------------------------ generated

_G = {}


def gen_exprs(nops):
    """expression strings with <= nops operators (parsed by the calculator's own parser, printed back for the round-trip test)"""
    key = ('e', nops)
    if key in _G:
        return _G[key]
    leaves = ['x', 'a', '1', '2', '1/2', 'pi']
    unary = ['-(%s)', 'sin(%s)', 'cos(%s)', 'exp(%s)', 'log(%s)', 'sqrt(%s)', 'atan(%s)', 'abs(%s)']
    binary = ['(%s) + (%s)', '(%s) - (%s)', '(%s) * (%s)', '(%s) / (%s)', '(%s) ^ (%s)']
    by = {0: list(leaves)}
    for n in range(1, nops + 1):
        cur = []
        for u in unary:
            cur += [u % a for a in by[n - 1]]
        for k in range(n):
            for b in binary:
                cur += [b % (a1, a2) for a1 in by[k] for a2 in by[n - 1 - k]]
        by[n] = cur
    out = []
    for n in range(nops + 1):
        out += by[n]
    _G[key] = out
    return out


def gen_integrals(tier):
    key = ('i', tier)
    if key in _G:
        return _G[key]
    bodies = [b for b in gen_exprs(1) if 'x' in b and 'a' not in b]
    if tier == 'thorough':
        bodies += ['(x) * (sin(x))', '(x) * (exp(x))', '(x) * (log(x))', '(x ^ 2) * (exp(-(x)))', '(1) / ((x) ^ 2 + 1)', '(x) / ((x) ^ 2 + 1)',
                   'sin(x) * cos(x)', 'exp(-(x ^ 2)) * x', '(x) * sqrt(x + 1)', '1 / (x * (x + 1))']
    else:
        bodies += ['(x) * (sin(x))', '(x) * (exp(x))', '(1) / ((x) ^ 2 + 1)', 'exp(-(x ^ 2)) * x']
    ranges = [('0', '1'), ('1', '2'), ('-1', '1'), ('0', 'oo'), ('1', 'oo')]
    out = ['INT x:[%s,%s]. %s' % (lo, hi, b) for b in bodies for lo, hi in ranges]
    _G[key] = out
    return out


def gen_integrals2(tier):
    """thorough only: integrands with two operators, three ranges, the parameter-free rules and three substitutions"""
    if tier != 'thorough':
        return []
    key = ('i2', tier)
    if key in _G:
        return _G[key]
    one = set(gen_exprs(1))
    bodies = [b for b in gen_exprs(2) if b not in one and 'x' in b and 'a' not in b]
    out = ['INT x:[%s,%s]. %s' % (lo, hi, b) for b in bodies for lo, hi in (('0', '1'), ('1', '2'), ('0', 'oo'))]
    _G[key] = out
    return out


def rules_for_integral2():
    from integral import rules
    rs = [('Linearity', rules.Linearity()), ('DefiniteIntegralIdentity', rules.DefiniteIntegralIdentity()), ('FullSimplify', rules.FullSimplify()),
          ('SplitRegion 1/2', rules.SplitRegion('1/2')), ('ElimInfInterval', rules.ElimInfInterval()), ('ExpandPolynomial', rules.ExpandPolynomial())]
    for g in ('2 * x', 'x + 1', 'x ^ 2'):
        rs.append(('Substitution u = ' + g, rules.Substitution('u', g)))
    return rs


def gen_limits(tier):
    fs = ['sin(x)', 'x', '1 - cos(x)', 'exp(x) - 1', 'log(1 + x)', 'x ^ 2', 'atan(x)', 'x * exp(x)', 'sqrt(x + 1) - 1']
    out = []
    for f in fs:
        for g in fs:
            if f != g:
                out.append('LIM {x -> 0}. (%s) / (%s)' % (f, g))
    for f in ['x', 'x ^ 2 + 1', 'exp(x)', 'log(x)', 'sqrt(x)', '2 * x + 1', 'x * log(x)']:
        for g in ['x', 'x ^ 2 + 1', 'exp(x)', 'log(x)', 'sqrt(x)', '2 * x + 1']:
            if f != g:
                out.append('LIM {x -> oo}. (%s) / (%s)' % (f, g))
    return out


def gen_leibniz(tier):
    """derivatives of integrals with variable bounds"""
    bnds = ['0', '1', 'x', '2 * x', 'x ^ 2', 'x + 1']
    bodies = ['t', 't * x', 'sin(t)', 'exp(t * x)', 't ^ 2 + x', 'cos(t) * x']
    return ['D x. INT t:[%s,%s]. %s' % (lo, hi, b) for lo in bnds for hi in bnds if lo != hi for b in bodies]


def gen_constructed(tier):
    """expressions built with the constructors (constants that the parser never produces directly: negative numbers and
    negative fractions as operands of every operator, on both sides)"""
    from fractions import Fraction
    from integral import expr
    x = expr.Var('x')
    cs = [expr.Const(Fraction(-1, 2)), expr.Const(-2), expr.Const(Fraction(3, 2)), expr.Const(Fraction(-5, 3)), expr.Const(2)]
    out = []
    for c in cs:
        for op in ('+', '-', '*', '/', '^'):
            out.append(expr.Op(op, c, x))
            out.append(expr.Op(op, x, c))
            out.append(expr.Op(op, expr.Op('+', x, expr.Const(1)), c))
            if op != '/':
                # a quotient of two constants is folded into one constant by the parser (by design): not generated
                for c2 in cs[:3]:
                    out.append(expr.Op(op, c, c2))
        out.append(expr.Op('-', c))
        out.append(expr.Fun('sin', c))
        out.append(expr.Fun('abs', expr.Op('*', c, x)))
        out.append(expr.Op('^', expr.Op('-', x), c))
        out.append(expr.Op('-', expr.Op('^', x, c)))
        out.append(expr.Op('^', expr.Op('^', x, c), expr.Const(2)))
    return out


def gen_equation_pairs(tier):
    """every ordered pair of distinct expressions with <= 1 operator (no parameter a): Equation must refuse or keep the value"""
    es = [e for e in gen_exprs(1) if 'a' not in e]
    return [(e1, e2) for e1 in es for e2 in es if e1 != e2]


def gen_families(tier):
    return [('equation', len(gen_equation_pairs(tier))), ('simplify', len(gen_exprs(bounds(tier)['generated_ops']))), ('integral', len(gen_integrals(tier))), ('limit', len(gen_limits(tier))),
            ('leibniz', len(gen_leibniz(tier))), ('constructed', len(gen_constructed(tier))), ('integral2', len(gen_integrals2(tier)))]


def rules_for_integral(e):
    from integral import rules, parser
    rs = [('Linearity', rules.Linearity()), ('DefiniteIntegralIdentity', rules.DefiniteIntegralIdentity()), ('FullSimplify', rules.FullSimplify()),
          ('SplitRegion 1/2', rules.SplitRegion('1/2')), ('SplitRegion 1', rules.SplitRegion('1')), ('ElimInfInterval', rules.ElimInfInterval()),
          ('ExpandPolynomial', rules.ExpandPolynomial())]
    for g in ('2 * x', 'x + 1', 'x ^ 2', '1 / x', '-x', 'sin(x)', 'exp(x)', 'sqrt(x)'):
        rs.append(('Substitution u = ' + g, rules.Substitution('u', g)))
    for g in ('2 * u', 'u + 1', 'u ^ 2', '1 / u', '-u', 'tan(u)', 'exp(u)'):
        rs.append(('SubstitutionInverse x = ' + g, rules.SubstitutionInverse('u', g)))
    pool = ['x', 'x ^ 2', 'sin(x)', '-cos(x)', 'exp(x)', 'log(x)', '-exp(-x)', '1', 'atan(x)']
    for u in pool:
        for v in pool:
            rs.append(('IntegrationByParts u = %s, v = %s' % (u, v), rules.IntegrationByParts(parser.parse_expr(u), parser.parse_expr(v))))
    return rs


def apply_and_compare(e, rule_name, rule, ctx, npoints, key, also_simplify=True):
    """-> Outcome with violation, or None; counts"""
    import io
    import contextlib
    from integral import rules
    try:
        with contextlib.redirect_stdout(io.StringIO()):
            new = rule.eval(e, ctx)
    except RecursionError:
        cnt('generated: rule raises')
        return None, None
    except Exception:
        cnt('generated: rule raises')
        return None, None
    if new == e:
        cnt('generated: rule leaves the expression unchanged')
        return None, new
    res, detail = compare(e, new, ctx, npoints, rule_name)
    cnt('generated: ' + res)
    cnt('generated rule %s: %s' % (rule_name.split(' ')[0], res))
    if res == 'differ':
        return viol('value-changes', '%s on %s' % (rule_name, key), '%s applied to %s gives %s. %s' % (rule_name, e, str(new)[:300], detail)), new
    return None, new


def run_gen(case, tier):
    import io
    import contextlib
    from integral import rules, parser, context, expr
    fam, lo, hi = case[1], case[2], case[3]
    npoints = bounds(tier)['grid_points_per_step']
    n_ok = 0
    if fam == 'simplify':
        ctx = context.Context()
        ctx.load_book('base')
        for s in gen_exprs(bounds(tier)['generated_ops'])[lo:hi]:
            try:
                e = parser.parse_expr(s)
            except Exception:
                cnt('generated: not parsable')
                continue
            # printing and parsing returns the same expression
            try:
                back = parser.parse_expr(str(e))
            except Exception as ex:
                return viol('print-parse', s, 'the printed form %r of %s cannot be parsed back: %s' % (str(e), s, ex))
            if back != e:
                return viol('print-parse', s, 'printing %r and parsing it back gives %r' % (e, back))
            for rn, r in (('FullSimplify', rules.FullSimplify()), ('Simplify', rules.Simplify()), ('ExpandPolynomial', rules.ExpandPolynomial()),
                          ('SimplifyPower', rules.OnSubterm(rules.SimplifyPower()))):
                bad, new = apply_and_compare(e, rn, r, ctx, npoints, s)
                if bad:
                    return bad
                if new is not None:
                    n_ok += 1
                    if rn in ('FullSimplify', 'Simplify'):
                        try:
                            with contextlib.redirect_stdout(io.StringIO()):
                                again = r.eval(new, ctx)
                        except Exception:
                            again = None
                        if again is not None and again != new:
                            cnt('generated: not idempotent (counted, the value is compared instead)')
                            bad2, _ = apply_and_compare(new, rn + ' (second application)', r, ctx, npoints, s)
                            if bad2:
                                return bad2
            # derivative
            try:
                with contextlib.redirect_stdout(io.StringIO()):
                    d = rules.deriv('x', e, ctx)
            except Exception:
                d = None
            if d is not None:
                res, detail = compare(expr.Deriv('x', e), d, ctx, npoints, 'deriv')
                cnt('generated deriv: ' + res)
                if res == 'differ':
                    return viol('value-changes', 'deriv of ' + s, 'deriv(x, %s) = %s. %s' % (e, d, detail))
                if res == 'agree':
                    n_ok += 1
    elif fam == 'integral':
        ctx = context.Context()
        ctx.load_book('base')
        for s in gen_integrals(tier)[lo:hi]:
            try:
                e = parser.parse_expr(s)
            except Exception:
                continue
            for rn, r in rules_for_integral(e):
                bad, new = apply_and_compare(e, rn, r, ctx, npoints, s)
                if bad:
                    return bad
                if new is not None and new != e:
                    n_ok += 1
                    # one more step from the state reached: simplification of the result
                    bad2, _ = apply_and_compare(new, 'FullSimplify after ' + rn, rules.FullSimplify(), ctx, npoints, s)
                    if bad2:
                        return bad2
    elif fam == 'equation':
        ctx = context.Context()
        ctx.load_book('base')
        cache = {}
        for s1, s2 in gen_equation_pairs(tier)[lo:hi]:
            try:
                e1 = cache.get(s1) or cache.setdefault(s1, parser.parse_expr(s1))
                e2 = cache.get(s2) or cache.setdefault(s2, parser.parse_expr(s2))
            except Exception:
                continue
            cnt('generated: equation pairs tried')
            bad, new = apply_and_compare(e1, 'Equation', rules.Equation(None, e2), ctx, npoints, s1 + ' => ' + s2)
            if bad:
                return bad
            if new is not None and new != e1:
                n_ok += 1
    elif fam == 'integral2':
        ctx = context.Context()
        ctx.load_book('base')
        rs = rules_for_integral2()
        for s in gen_integrals2(tier)[lo:hi]:
            try:
                e = parser.parse_expr(s)
            except Exception:
                continue
            for rn, r in rs:
                bad, new = apply_and_compare(e, rn, r, ctx, 3, s)
                if bad:
                    return bad
                if new is not None and new != e:
                    n_ok += 1
                    if rn != 'FullSimplify':
                        bad2, _ = apply_and_compare(new, 'FullSimplify after ' + rn, rules.FullSimplify(), ctx, 3, s)
                        if bad2:
                            return bad2
    elif fam == 'leibniz':
        ctx = context.Context()
        ctx.load_book('base')
        for s in gen_leibniz(tier)[lo:hi]:
            try:
                e = parser.parse_expr(s)
            except Exception:
                cnt('generated: not parsable')
                continue
            for rn, r in (('DerivativeSimplify', rules.DerivativeSimplify()), ('FullSimplify', rules.FullSimplify())):
                bad, new = apply_and_compare(e, rn, r, ctx, npoints, s)
                if bad:
                    return bad
                if new is not None and new != e:
                    n_ok += 1
    elif fam == 'constructed':
        ctx = context.Context()
        for e in gen_constructed(tier)[lo:hi]:
            key = repr(e)
            try:
                text = str(e)
                back = parser.parse_expr(text)
            except Exception as ex:
                return viol('print-parse', key, 'the printed form of %r cannot be parsed back: %s' % (e, ex))
            res, detail = compare(e, back, ctx, npoints, 'print/parse')
            cnt('generated print/parse: ' + res)
            if res == 'differ':
                return viol('print-parse', key, '%r is printed as %r, which parses to %r. %s' % (e, text, back, detail))
            if res == 'agree':
                n_ok += 1
            # the parser folds constants (-(3/2) becomes the constant -3/2), so the text may change once; what the parser
            # produced must then be stable under printing and parsing
            try:
                back2 = parser.parse_expr(str(back))
            except Exception as ex:
                return viol('print-parse', key, '%r parsed from %r is printed as %r, which cannot be parsed: %s' % (back, text, str(back), ex))
            if back2 != back:
                return viol('print-parse', key, '%r (parsed from %r) is printed as %r, which parses to the different expression %r' % (
                    back, text, str(back), back2))
    elif fam == 'limit':
        ctx = context.Context()
        ctx.load_book('base')
        for s in gen_limits(tier)[lo:hi]:
            try:
                e = parser.parse_expr(s)
            except Exception:
                continue
            for rn, r in (('LHopital', rules.LHopital()), ('ReduceLimit', rules.ReduceLimit()), ('FullSimplify', rules.FullSimplify())):
                bad, new = apply_and_compare(e, rn, r, ctx, npoints, s)
                if bad:
                    return bad
                if new is not None and new != e:
                    n_ok += 1
                    bad2, _ = apply_and_compare(new, 'FullSimplify after ' + rn, rules.FullSimplify(), ctx, npoints, s)
                    if bad2:
                        return bad2
    return Outcome('steps-agree' if n_ok else 'nothing-decided', n_ok > 0, obs='%s/%d:%d' % (fam, lo, n_ok))


_TIER = ['quick']


def setup(tier):
    _TIER[0] = tier
    from integral import compstate, rules, parser, expr, context  # noqa


def run(case):
    if case[0] == 'file':
        return run_file(case, _TIER[0])
    return run_gen(case, _TIER[0])
