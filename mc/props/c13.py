"""C13 — proof editing preserves the goal and keeps the partial proof checkable (E2, see mc/pstate.py)."""
from mc import pstate

ID = 'C13'
LEVEL = 'model_checking'
RULE = ('BFS over editing histories of server.method.ProofState from 16 generated goals (base logic, logic, nat, set), twice per goal: '
        'menu "wide" = every suggestion of search_method for every gap and every selection of <=2 visible facts (open parameters '
        'names / s filled from the state), plus cut (subformulas of goal and hypotheses not yet present) / cases / introduction / '
        'new_var; menu "narrow" = selections of <=1 fact, cut and introduction only, explored deeper; both menus add conjD1/conjD2 '
        'forward steps of every visible conjunction at every gap and forward steps suggested for another gap. Every event is applied '
        'to a copy (expansion) and replayed live (replay of the history on a fresh state); plus every prefix of the recorded steps of '
        'the library proofs of the tier. Invariants after every error-free event: full re-check succeeds with gaps == placeholders, '
        'last line == stated goal, ids == positions, citations earlier and visible, finished proofs pass no_gaps=True, '
        'export/re-import gives the same lines and result, copies are isolated. States merged by (variables, exported proof). '
        'Where a per-goal state cap is reached, x_cap_hit names the goal, menu and depth; below that depth the goal is fully covered.')
ASSUMPTIONS = ['state merging by exported proof + variables (every method reads only state.prf and state.vars)',
               'z3 is switched off (z3wrapper.check_z3 = False) as in server.monitor']
bounds = pstate.bounds


def setup(tier):
    from logic import basic
    from server import server, method  # noqa
    basic.load_theory('set')


def explore(tier, shard, nshards, agg):
    pstate.explore(tier, shard, nshards, agg, 'C13')


def replay(case):
    return pstate.replay(case, 'C13')
