"""C06 — goals discharged through external solvers (Z3, SymPy) are valid HOL statements.  E1, oracle: bounded
three-valued evaluation (definitive when it refutes) + independent SMT encoding (z3 python, cvc5 CLI)."""
import itertools
import subprocess
from fractions import Fraction

from mc import ref, numeric
from mc.engine import Outcome, tier_param
from mc.numeric import NAT, INT, REAL
from mc.ref import BOOL, fun, funs

ID = 'C06'
LEVEL = 'exploration'
WALL_S = 60.0
LINE_BUDGET = 200000000
RULE = ('goals Q1 v1. Q2 v2. (A op B) and their negations, with A, B from per-type atom pools (nat: truncated subtraction, '
        'n < 0, n + 1 = 0; int; real: division, division by zero, non-normal literals 4/6; min/max/abs; function application and '
        'function equality; if-then-else), op in {&, |, -->}, every variable free / universally / existentially bound (positive '
        'and negative positions, also with all binders sharing one print name), '
        'each given to z3wrapper.solve and to the z3 macro through check_proof. SymPy: ~(e1 = e2), '
        'e1 = e2 and inequalities over one real variable with and without interval premises, in both orders open/closed '
        '(the solver memoises). distinct_nontrivial = distinct goals that the step ACCEPTED and the oracle judged.')
ASSUMPTIONS = ['a falsifying valuation found by bounded evaluation is definitive; otherwise the negation of an independent '
               'encoding (nat relativised, truncated -, x/0 = 0, extensional function equality) must be sat for z3 AND cvc5, '
               'and, when the goal is quantifier-free, the model must falsify the goal under exact evaluation']


def bounds(tier):
    return tier_param(tier, {'atoms_per_type': 'quick pool', 'connectives': 1}, {'atoms_per_type': 'full pool', 'connectives': 1})


def v(n, T):
    return ('v', n, T)


def c(n, T):
    return ('c', n, T)


def app(h, *args):
    for z in args:
        h = ('app', h, z)
    return h


def num(n, T):
    from kernel.term import Nat, Int, Real
    return ref.conv_term({NAT: Nat, INT: Int, REAL: Real}[T](n))


def bop(name, T, a, b, R=None):
    return app(c(name, funs(T, T, R if R is not None else T)), a, b)


def atoms(tier):
    m, n = v('m', NAT), v('n', NAT)
    i, j = v('i', INT), v('j', INT)
    x, y = v('x', REAL), v('y', REAL)
    p = v('p', BOOL)
    f, g = v('f', fun(NAT, NAT)), v('g', fun(NAT, NAT))
    N0, N1 = num(0, NAT), num(1, NAT)
    A = []
    # nat
    A += [bop('less', NAT, n, N0, BOOL), bop('equals', NAT, bop('plus', NAT, n, N1), N0, BOOL), bop('less_eq', NAT, N0, n, BOOL),
          bop('equals', NAT, bop('plus', NAT, bop('minus', NAT, m, n), n), m, BOOL), bop('equals', NAT, bop('minus', NAT, m, n), N0, BOOL),
          bop('less', NAT, m, n, BOOL), bop('equals', NAT, m, n, BOOL),
          bop('less_eq', NAT, bop('minus', NAT, m, N1), m, BOOL), bop('less', NAT, bop('minus', NAT, m, N1), m, BOOL)]
    # int
    I0 = num(0, INT)
    A += [bop('equals', INT, bop('plus', INT, bop('minus', INT, i, j), j), i, BOOL), bop('less', INT, i, I0, BOOL),
          bop('less_eq', INT, I0, app(c('abs', fun(INT, INT)), i), BOOL), bop('less_eq', INT, i, app(c('max', funs(INT, INT, INT)), i, j), BOOL),
          bop('less_eq', INT, app(c('min', funs(INT, INT, INT)), i, j), j, BOOL), bop('less_eq', INT, app(c('max', funs(INT, INT, INT)), i, j), j, BOOL)]
    # real
    R0, R1, R2, R3, R4, R6 = [num(k, REAL) for k in (0, 1, 2, 3, 4, 6)]
    div = lambda a, b: bop('real_divide', REAL, a, b)
    A += [bop('less', REAL, div(R4, R6), div(R2, R3), BOOL), bop('equals', REAL, div(R4, R6), div(R2, R3), BOOL),
          bop('equals', REAL, bop('times', REAL, div(x, y), y), x, BOOL), bop('equals', REAL, div(x, R0), R0, BOOL),
          bop('less_eq', REAL, R0, bop('times', REAL, x, x), BOOL), bop('less', REAL, x, y, BOOL),
          bop('equals', REAL, div(R1, R3), div(R2, R6), BOOL), bop('less', REAL, div(R1, R3), div(R1, R2), BOOL)]
    # functions / bool
    A += [bop('equals', NAT, app(f, m), app(f, n), BOOL), bop('equals', fun(NAT, NAT), f, g, BOOL), p,
          bop('equals', NAT, app(c('IF', funs(BOOL, NAT, NAT, NAT)), p, m, n), m, BOOL)]
    if tier == 'quick':
        return A
    A += [bop('less_eq', NAT, n, bop('times', NAT, n, n), BOOL), bop('less', INT, bop('times', INT, i, i), I0, BOOL),
          bop('equals', REAL, app(c('abs', fun(REAL, REAL)), x), x, BOOL), bop('less_eq', NAT, app(f, m), app(f, bop('plus', NAT, m, N1)), BOOL)]
    return A


NEG = c('neg', fun(BOOL, BOOL))


def goals(tier):
    A = atoms(tier)
    B2 = funs(BOOL, BOOL, BOOL)
    bodies = []
    for a in A:
        bodies.append(a)
        bodies.append(app(NEG, a))
    pool = A if tier == 'thorough' else A[::2]
    for a in A:
        for b in pool:
            if a == b:
                continue
            bodies.append(app(c('implies', B2), a, b))
            bodies.append(app(c('conj', B2), a, b))
            bodies.append(app(c('disj', B2), a, app(NEG, b)))
    seen = set()
    for body in bodies:
        fv = [z for z in ref.free_atoms(body) if z[0] == 'v']
        bindable = [z for z in fv if not ref.is_fun(z[2])]
        for modes in itertools.product(('free', 'all', 'ex'), repeat=len(bindable)):
            if len(bindable) > 2 and modes.count('free') < len(bindable) - 2:
                continue
            bound = [z for z, mode in zip(bindable, modes) if mode != 'free']
            # second pass: all binders carry the same print name (shadowing; terms are de Bruijn, names are cosmetic)
            for shadow in ((False, True) if len(bound) >= 2 else (False,)):
                g = body
                for z, mode in reversed(list(zip(bindable, modes))):
                    if mode == 'free':
                        continue
                    q = 'all' if mode == 'all' else 'exists'
                    g = app(c(q, fun(fun(z[2], BOOL), BOOL)), ('abs', bound[0][1] if shadow else z[1], z[2], ref.abstract(g, z)))
                for gg in (g, app(NEG, g)):
                    if gg not in seen:
                        seen.add(gg)
                        yield gg


def cases(tier):
    gs = list(goals(tier))
    for i in range(0, len(gs), 20):
        yield ['z3', i, min(i + 20, len(gs))]
    for i in range(len(sympy_cases())):
        yield ['sympy', i]


_G = {}


def goal_list(tier):
    if tier not in _G:
        _G[tier] = list(goals(tier))
    return _G[tier]


# ------------------------------------------------------------------------------ bounded three-valued evaluation

GRID = {NAT: [0, 1, 2, 3], INT: [-2, -1, 0, 1, 2], REAL: [Fraction(-1), Fraction(-1, 2), Fraction(0), Fraction(1, 3), Fraction(1), Fraction(2)],
        BOOL: [False, True]}


def fun_grid():
    out = []
    for vals in itertools.product((0, 1, 2), repeat=3):
        out.append(lambda k, vals=vals: vals[k] if 0 <= k < 3 else 0)
    return out[::4]


FUNS = fun_grid()


class U:
    """unknown"""


def ev3(t, env, bs=()):
    """True / False / U (Kleene); quantifiers range over the grid, so only witnesses/counterexamples are definitive"""
    k = t[0]
    if k == 'app':
        h = t
        args = []
        while h[0] == 'app':
            args.append(h[2])
            h = h[1]
        args.reverse()
        if h[0] == 'c' and h[1] in ('all', 'exists') and len(args) == 1 and args[0][0] == 'abs':
            T = args[0][2]
            dom = GRID.get(T)
            if dom is None:
                return U
            res = [ev3(args[0][3], env, (d,) + tuple(bs)) for d in dom]
            finite = (T == BOOL)
            if h[1] == 'all':
                if any(r is False for r in res):
                    return False
                return True if finite and all(r is True for r in res) else U
            if any(r is True for r in res):
                return True
            return False if finite and all(r is False for r in res) else U
        if h[0] == 'c' and h[1] == 'neg' and len(args) == 1:
            r = ev3(args[0], env, bs)
            return U if r is U else (not r)
        if h[0] == 'c' and h[1] in ('conj', 'disj', 'implies') and len(args) == 2:
            a, b = ev3(args[0], env, bs), ev3(args[1], env, bs)
            if h[1] == 'implies':
                a = U if a is U else (not a)
                nm = 'disj'
            else:
                nm = h[1]
            if nm == 'conj':
                if a is False or b is False:
                    return False
                return True if (a is True and b is True) else U
            if a is True or b is True:
                return True
            return False if (a is False and b is False) else U
        if h[0] == 'c' and h[1] == 'equals' and ref.is_fun(h[2][2][0]):
            # function equality: pointwise on the grid (only a difference is definitive)
            fa, fb = numeric.ev(args[0], env, bs), numeric.ev(args[1], env, bs)
            if fa is fb:
                return True      # the same total function
            if any(fa(d) != fb(d) for d in range(0, 6)):
                return False
            return U
    try:
        r = numeric.ev(t, env, bs)
    except numeric.Unsupported:
        return U
    if isinstance(r, bool):
        return r
    return U


def refute(goal, cap=None):
    """a valuation of the free variables under which the goal is definitely false, or None"""
    fv = [z for z in ref.free_atoms(goal) if z[0] == 'v']
    pools = []
    for z in fv:
        if ref.is_fun(z[2]):
            pools.append(FUNS)
        else:
            pools.append(GRID.get(z[2], [None]))
    if cap is not None:
        n = 1
        for pl in pools:
            n *= len(pl)
        if n > cap or any(pl == [None] for pl in pools):
            return None
    for vals in itertools.product(*pools):
        env = dict(zip(fv, vals))
        try:
            if ev3(goal, env) is False:
                return {z[1]: (str(x) if not callable(x) else [x(0), x(1), x(2)]) for z, x in zip(fv, vals)}
        except Exception:
            continue
    return None


# ------------------------------------------------------------------------------ independent SMT encoding

def encode(goal):
    """z3 formula for the HOL meaning of the goal (free nat variables constrained >= 0 separately)"""
    import z3
    nat_free = []
    cache = {}

    def sort(T):
        if T == BOOL:
            return z3.BoolSort()
        if T in (NAT, INT):
            return z3.IntSort()
        if T == REAL:
            return z3.RealSort()
        raise numeric.Unsupported('sort')

    def var(z):
        if z in cache:
            return cache[z]
        if ref.is_fun(z[2]):
            r = z3.Function(z[1], sort(z[2][2][0]), sort(z[2][2][1]))
        else:
            r = z3.Const(z[1], sort(z[2]))
            if z[2] == NAT:
                nat_free.append(r >= 0)
        cache[z] = r
        return r

    def enc(t, bs):
        k = t[0]
        if k == 'b':
            return bs[t[1]]
        if k == 'v':
            return var(t)
        if k == 'c':
            if t[1] == 'true':
                return z3.BoolVal(True)
            if t[1] == 'false':
                return z3.BoolVal(False)
            if t[1] in ('zero', 'one'):
                val = 0 if t[1] == 'zero' else 1
                return z3.RealVal(val) if t[2] == REAL else z3.IntVal(val)
            raise numeric.Unsupported(t[1])
        h = t
        args = []
        while h[0] == 'app':
            args.append(h[2])
            h = h[1]
        args.reverse()
        if h[0] == 'v':
            return var(h)(*[enc(a, bs) for a in args])
        nm, T = h[1], h[2]
        if nm in ('all', 'exists') and args[0][0] == 'abs':
            bT = args[0][2]
            bv = z3.FreshConst(sort(bT), args[0][1])
            body = enc(args[0][3], (bv,) + tuple(bs))
            if nm == 'all':
                return z3.ForAll([bv], z3.Implies(bv >= 0, body) if bT == NAT else body)
            return z3.Exists([bv], z3.And(bv >= 0, body) if bT == NAT else body)
        if nm == 'of_nat':
            val = numeric.ev(args[0])
            R = T[2][1]
            return z3.RealVal(val) if R == REAL else z3.IntVal(val)
        a = [enc(z, bs) for z in args]
        if nm == 'neg':
            return z3.Not(a[0])
        if nm == 'conj':
            return z3.And(a[0], a[1])
        if nm == 'disj':
            return z3.Or(a[0], a[1])
        if nm == 'implies':
            return z3.Implies(a[0], a[1])
        if nm == 'equals':
            AT = T[2][0]
            if ref.is_fun(AT):
                u = z3.FreshConst(sort(AT[2][0]), 'u')
                body = a[0](u) == a[1](u)
                return z3.ForAll([u], z3.Implies(u >= 0, body) if AT[2][0] == NAT else body)
            return a[0] == a[1]
        if nm == 'plus':
            return a[0] + a[1]
        if nm == 'times':
            return a[0] * a[1]
        if nm == 'minus':
            if numeric.result_type(T) == NAT:
                return z3.If(a[0] >= a[1], a[0] - a[1], 0)
            return a[0] - a[1]
        if nm == 'uminus':
            return -a[0]
        if nm == 'real_divide':
            return z3.If(a[1] == 0, z3.RealVal(0), a[0] / a[1])
        if nm == 'less':
            return a[0] < a[1]
        if nm == 'less_eq':
            return a[0] <= a[1]
        if nm == 'greater':
            return a[0] > a[1]
        if nm == 'greater_eq':
            return a[0] >= a[1]
        if nm == 'abs':
            return z3.If(a[0] >= 0, a[0], -a[0])
        if nm == 'max':
            return z3.If(a[0] >= a[1], a[0], a[1])
        if nm == 'min':
            return z3.If(a[0] <= a[1], a[0], a[1])
        if nm == 'IF':
            return z3.If(a[0], a[1], a[2])
        raise numeric.Unsupported(nm)
    f = enc(goal, ())
    return f, nat_free


def reference_refutes(goal):
    """('sat', model text) if the independent encoding of ~goal is satisfiable for z3 and cvc5, else ('no', why)"""
    import z3
    try:
        f, nat_free = encode(goal)
    except numeric.Unsupported as e:
        return ('no', 'not encodable: %s' % e)
    s = z3.Solver()
    s.set('timeout', 3000)
    for a in nat_free:
        s.add(a)
    s.add(z3.Not(f))
    r = s.check()
    if r != z3.sat:
        return ('no', 'z3 reference says %s' % r)
    model = s.model()
    smt2 = s.to_smt2()
    try:
        out = subprocess.run(['/usr/bin/cvc5', '--lang', 'smt2', '--tlimit', '5000'], input=smt2, capture_output=True, text=True, timeout=20)
        ans = out.stdout.strip().splitlines()[0] if out.stdout.strip() else 'unknown'
    except Exception as e:
        ans = 'unknown'
    if ans != 'sat':
        return ('no', 'cvc5 reference says %s' % ans)
    return ('sat', str(model))


def viol(kind, case, what):
    return Outcome(kind.upper(), violation={'signature': kind + ':' + repr(case), 'what': what})


def run_z3(case, tier):
    from prover import z3wrapper
    from kernel import theory
    from kernel.proof import Proof, ProofItem
    gs = goal_list(tier)[case[1]:case[2]]
    n_acc = 0
    for g in gs:
        t = ref.to_term(g)
        try:
            ok = z3wrapper.solve(t)
        except RecursionError:
            ok = False
        except Exception:
            ok = False
        if not ok:
            continue
        # the same through the checker
        prf = Proof()
        prf.items = [ProofItem(0, 'z3', args=t)]
        try:
            th = theory.check_proof(prf)
        except Exception:
            th = None
        n_acc += 1
        cm = refute(g)
        if cm is not None:
            return viol('z3-accepts-false', ['z3', ref.show(g)], 'the z3 step accepts %s, which is false under HOL semantics for %s' % (ref.show(g), cm))
        r = reference_refutes(g)
        if r[0] == 'sat':
            return viol('z3-accepts-refutable', ['z3', ref.show(g)], 'the z3 step accepts %s, but an independent encoding of its negation is satisfiable for z3 and cvc5: %s' % (
                ref.show(g), r[1][:300]))
    return Outcome('z3-some-accepted' if n_acc else 'z3-none-accepted', n_acc > 0, obs='z%d:%d' % (case[1], n_acc))


# ------------------------------------------------------------------------------ sympy

def sympy_cases():
    """(goal text, premise text or None) sequences; each case is a short session (the solver memoises)"""
    X = 'x'
    eqs = [('(x + 1) ^ (2::nat)', 'x ^ (2::nat) + 2 * x + 1'), ('x * (x + 1)', 'x ^ (2::nat) + x'), ('x + x', '2 * x'), ('x', 'x + 0'),
           ('x ^ (2::nat)', 'x'), ('sin x', '0'), ('x / x', '1'), ('1 / x', '0'), ('x * (1 / x)', '1'), ('x', 'x + 1'),
           ('(1 + sqrt 2) ^ (2::nat)', '3 + 2 * sqrt 2'), ('sqrt 8', '2 * sqrt 2'), ('sqrt 2', '0'), ('x', '0'), ('x * x', 'x ^ (2::nat)'), ('(x - 1) * (x + 1)', 'x ^ (2::nat) - 1')]
    sessions = []
    for a, b in eqs:
        sessions.append([('~(%s = %s)' % (a, b), None)])
        sessions.append([('%s = %s' % (a, b), None)])
        for lo, hi in (('0', '1'), ('-1', '1'), ('0', 'pi')):
            op = 'x Mem real_open_interval (%s) (%s)' % (lo, hi)
            cl = 'x Mem real_closed_interval (%s) (%s)' % (lo, hi)
            sessions.append([('~(%s = %s)' % (a, b), op), ('~(%s = %s)' % (a, b), cl)])
            sessions.append([('~(%s = %s)' % (a, b), cl), ('~(%s = %s)' % (a, b), op)])
    for goal in ['1 - x ^ (2::nat) >= 0', '1 - x ^ (2::nat) > 0', 'x >= 0', 'x > 0', 'x * (1 - x) >= 0', 'x * (1 - x) > 0', 'sqrt x >= 0', 'x ^ (2::nat) <= x', 'x / x >= 1', '1 / x > 0',
                 'x * (1 / x) >= 1']:
        for lo, hi in (('0', '1'), ('-1', '1')):
            op = 'x Mem real_open_interval (%s) (%s)' % (lo, hi)
            cl = 'x Mem real_closed_interval (%s) (%s)' % (lo, hi)
            sessions.append([(goal, op), (goal, cl)])
            sessions.append([(goal, cl), (goal, op)])
    return sessions


def run_sympy(case):
    import sympy
    from logic import context
    from syntax import parser
    from prover import sympywrapper
    from kernel.thm import Thm
    sess = sympy_cases()[case[1]]
    sympywrapper.solveset_cache.clear()
    n_acc = 0
    for goal_s, prem_s in sess:
        with context.fresh_context(vars={'x': parser.parse_type('real')}):
            try:
                goal = parser.parse_term(goal_s)
                prems = [Thm(parser.parse_term(prem_s))] if prem_s else []
            except Exception:
                return Outcome('sympy-unparsable')
        try:
            ok = sympywrapper.SymPyMacro().can_eval(goal, prems)
        except RecursionError:
            ok = False
        except Exception:
            ok = False
        if not ok:
            continue
        n_acc += 1
        # oracle: sample admissible points exactly with sympy (independent evaluation of the goal text)
        x = sympy.Symbol('x')
        lo, hi, closed = None, None, True
        if prem_s:
            parts = prem_s.split()
            closed = 'closed' in parts[2]
            lo = sympy.sympify(parts[3].strip('()'))
            hi = sympy.sympify(parts[4].strip('()'))
        pts = [sympy.Rational(k, 4) for k in range(-8, 9)] + [sympy.pi / 2, sympy.pi]
        if lo is not None:
            pts = [p for p in pts + [lo, hi, (lo + hi) / 2] if (lo <= p <= hi if closed else lo < p < hi)]
        bad = None
        for p in pts:
            val = eval_goal(goal, p)
            if val is False:
                bad = p
                break
        if bad is not None:
            return viol('sympy-accepts-false', ['sympy', goal_s, prem_s, [g for g, _ in sess]],
                        'the sympy step accepts %s under %s (session %r), which is false at x = %s' % (goal_s, prem_s, sess, bad))
    return Outcome('sympy-some-accepted' if n_acc else 'sympy-none-accepted', n_acc > 0, obs='s%d' % n_acc)


def sp_val(t, xval):
    """exact sympy value of a real/nat reference term at x = xval, with the HOL conventions (a / 0 = 0)"""
    import sympy
    k = t[0]
    if k == 'v':
        if t[1] == 'x':
            return xval
        raise numeric.Unsupported('var')
    h = t
    args = []
    while h[0] == 'app':
        args.append(h[2])
        h = h[1]
    args.reverse()
    if h[0] != 'c':
        raise numeric.Unsupported('head')
    nm = h[1]
    if nm in ('zero', 'one', 'of_nat', 'bit0', 'bit1'):
        return sympy.Integer(numeric.ev(t)) if not isinstance(numeric.ev(t), Fraction) else sympy.Rational(numeric.ev(t).numerator, numeric.ev(t).denominator)
    if nm == 'pi':
        return sympy.pi
    a = [sp_val(z, xval) for z in args]
    if nm == 'plus':
        return a[0] + a[1]
    if nm == 'minus':
        return a[0] - a[1]
    if nm == 'uminus':
        return -a[0]
    if nm == 'times':
        return a[0] * a[1]
    if nm == 'real_divide':
        if sympy.simplify(a[1]) == 0:
            return sympy.Integer(0)
        return a[0] / a[1]
    if nm == 'power':
        return a[0] ** a[1]
    if nm == 'sqrt':
        if a[0].is_negative:
            raise numeric.Unsupported('sqrt of negative')
        return sympy.sqrt(a[0])
    if nm == 'sin':
        return sympy.sin(a[0])
    if nm == 'abs':
        return sympy.Abs(a[0])
    raise numeric.Unsupported(nm)


def eval_goal(goal, xval):
    """truth value of the (holpy) goal at x = xval; True / False / None (undecided)"""
    import sympy
    t = ref.conv_term(goal)
    neg = False
    while t[0] == 'app' and t[1] == NEG:
        neg = not neg
        t = t[2]
    if not (t[0] == 'app' and t[1][0] == 'app' and t[1][1][0] == 'c'):
        return None
    opn = t[1][1][1]
    if opn not in ('equals', 'less', 'less_eq', 'greater', 'greater_eq'):
        return None
    try:
        d = sympy.simplify(sp_val(t[1][2], xval) - sp_val(t[2], xval))
        if d == 0:
            sign = 0
        else:
            fv = d.evalf(40)
            if not fv.is_real or abs(fv) < 1e-25:
                return None
            sign = 1 if fv > 0 else -1
    except numeric.Unsupported:
        return None
    except Exception:
        return None
    res = {'greater_eq': sign >= 0, 'less_eq': sign <= 0, 'greater': sign > 0, 'less': sign < 0, 'equals': sign == 0}[opn]
    return (not res) if neg else res


_TIER = ['quick']


def setup(tier):
    _TIER[0] = tier
    from logic import basic
    from prover import z3wrapper, sympywrapper  # noqa
    from data import real  # noqa
    import z3
    z3.set_param('timeout', 1500)   # harness bound: a solver call that does not answer in 1.5 s counts as 'not accepted'
    for _ in range(2):
        try:
            basic.load_theory('realintegral')
            break
        except Exception:
            pass


def run(case):
    if case[0] == 'z3':
        return run_z3(case, _TIER[0])
    return run_sympy(case)
