"""C04 — a macro's expansion is accepted by the checker and proves what its evaluation claims.  E1 over the macro
invocations of the recorded library, their complete 1-deviation neighbourhood, and generated small-scope inputs."""
import itertools
import json
import os

from mc import ref
from mc.engine import Outcome, tier_param, REPO

ID = 'C04'
LEVEL = 'exploration'
WALL_S = 120.0
LINE_BUDGET = 400000000
RULE = ('tuples (macro, args, premise sequents): (i) every macro step in the final proof states obtained by replaying the recorded '
        'steps of the library theories of the tier; (ii) the complete 1-deviation neighbourhood of each distinct tuple: each premise '
        'dropped, the first duplicated, adjacent premises swapped, a hypothesis added to a premise, a term argument replaced by each '
        'of its boolean subterms and by each premise statement; (iii) generated inputs for the macros with a hand-written eval: '
        'imp_conj / imp_disj on all pairs of conjunction / disjunction trees with <= 3 leaves over {A, B, C, true, false}; '
        'apply_theorem(_for), apply_fact(_for), resolve_theorem, rewrite_goal(_sym), rewrite_fact(_sym), rewrite_*_with_prev, '
        'forall_elim_gen, intros, trivial, beta_norm, resolution on all premise tuples of length <= 2 (<= 3 for a few) from a pool '
        'of sequents with and without hypotheses; nat_norm, nat_const_ineq, nat_const_less(_eq) on all (in)equalities between nat '
        'expressions with <= 2 operators; the int comparison macros on integer literals/expressions; (iv) sessions of two invocations '
        'of the auto macro (its normal-form memo persists across invocations) on real goals needing side conditions, the condition '
        'given as proved fact, as assumption, or not at all, every ordered pair; (v) every step of the stored solver-produced veriT proofs '
        '(corpus/verit, 151 proofs, 76 rules) and its 1-deviation near misses, and verit_conj_pts / verit_disj_pts on all premise lists '
        'A_i <--> r_i, r_i in {B, C, D}, n = 2..4. For every tuple on which eval '
        'succeeds and the expansion is produced: the one-step proof (premises as placeholders) is checked at the default level, so '
        'the step is expanded down to primitive rules, theorems and level-0 oracles; the result must have the conclusion eval '
        'reports, no hypothesis eval does not report, and rest on no unproved statement other than the premises. distinct_nontrivial = distinct tuples compared.')
ASSUMPTIONS = ['the checker itself (C01/C02 check it separately); kernel term equality for comparing conclusions']


def bounds(tier):
    return tier_param(tier, {'library': 'logic_base, logic, set, nat (items with recorded steps)', 'neighbourhood_of': 'every distinct tuple',
                             'tree_leaves': 3, 'nat_ops': 1},
                      {'library': 'logic_base, logic, set, nat, function, list, int, gcd', 'neighbourhood_of': 'every distinct tuple', 'tree_leaves': 3, 'nat_ops': 1,
                       'verit_corpus': 'all 151 stored proofs, 10 steps per rule and file'})


LIB_QUICK = ['logic_base', 'logic', 'set', 'nat']


def lib_names(tier):
    if tier == 'quick':
        return LIB_QUICK
    # (replaying all 43 theories with neighbourhoods did not finish within 25 minutes)
    return LIB_QUICK + ['function', 'list', 'int', 'gcd']


def cases(tier):
    for nm in lib_names(tier):
        try:
            data = json.load(open(os.path.join(REPO, 'library', nm + '.json'), encoding='utf-8'))
        except Exception:
            continue
        for it in data.get('content', []):
            if it.get('ty') == 'thm' and (it.get('steps') or it.get('proof')):
                yield ['lib', nm, it['name']]
    for fam, n in gen_families(tier):
        for i in range(0, n, 40):
            yield ['gen', fam, i, min(i + 40, n)]
    ns = len(auto_sessions(tier))
    for i in range(0, ns, 25):
        yield ['auto', 'sessions', i, min(i + 25, ns)]
    from mc.props import c18
    for f in c18.corpus_files():
        if tier == 'quick' and os.path.getsize(os.path.join(c18.CORPUS, f)) > 4000:
            continue
        yield ['verit', f]
    n = len(verit_pts_tuples(tier))
    for i in range(0, n, 40):
        yield ['verit-pts', i, min(i + 40, n)]


# ------------------------------------------------------------------------------ judging one tuple

def show_th(th):
    from syntax import printer
    from syntax.settings import global_setting
    with global_setting(unicode=False, highlight=False):
        try:
            return printer.print_thm(th)
        except Exception:
            return str(th)


def show_args(args):
    from kernel.proof import ProofItem
    try:
        return ProofItem(0, 'x', args=args).print_str_args()
    except Exception:
        return repr(args)


def judge(name, args, prev_ths, tag, show=None, depth=0):
    """-> (class, violation-or-None)"""
    from kernel import theory
    from kernel.proof import Proof, ProofItem, ItemID
    from kernel.thm import Thm
    try:
        macro = theory.get_macro(name)
    except Exception:
        return 'macro-unavailable', None     # e.g. int_ineq: the macro object has no .limit, has_macro raises
    if macro.level is not None and macro.level <= 0:
        return 'level0', None
    prev_ths = [Thm(th.prop, *th.hyps) for th in prev_ths]
    try:
        ev = macro.eval(args, prev_ths)
    except RecursionError:
        return 'eval-raises', None
    except Exception:
        return 'eval-raises', None
    if not isinstance(ev, Thm):
        return 'eval-raises', None
    k = len(prev_ths)
    ids = [ItemID(i) for i in range(k)]
    try:
        sub = macro.expand(ItemID(k), args, list(zip(ids, prev_ths)))
    except RecursionError:
        return 'expansion-not-produced', None
    except Exception:
        return 'expansion-not-produced', None
    prf = Proof()
    prf.items = [ProofItem(i, 'sorry', th=prev_ths[i]) for i in range(k)] + [ProofItem(k, name, args=args, prevs=list(range(k)))]
    desc = '%s %s from [%s]' % (name, (show or show_args)(args), '; '.join(show_th(t) for t in prev_ths))

    def v(kind, what):
        return {'signature': '%s:%s' % (kind, desc), 'what': '%s (%s): %s' % (desc, tag, what)}
    from kernel.report import ProofReport
    rpt = ProofReport()
    try:
        theory.check_proof(prf, rpt)
    except RecursionError:
        return 'expansion-not-produced', None
    except Exception as e:
        # localise: a macro step inside the produced expansion that itself violates the property is the smaller counterexample
        if depth < 4:
            inner = localise(sub, prev_ths, tag, depth)
            if inner is not None:
                inner[1]['what'] = 'inside the expansion of %s: %s' % (desc[:300], inner[1]['what'])
                return inner
        return 'EXPANSION-REJECTED', v('expansion-rejected', 'eval reports %s, but the expansion is refused by the checker: %s: %s' % (
            show_th(ev), type(e).__name__, str(getattr(e, 'str', e))[:200]))
    ex = prf.items[-1].th
    if ex.prop != ev.prop:
        return 'CONCLUSION-DIFFERS', v('conclusion-differs', 'eval reports %s, the expansion proves %s' % (show_th(ev), show_th(ex)))
    if not set(ex.hyps) <= set(ev.hyps):
        return 'EXTRA-HYPS', v('extra-hyps', 'eval reports %s, the expansion proves %s (additional hypotheses)' % (show_th(ev), show_th(ex)))
    extra = [g for g in rpt.gaps if not any(g.prop == p.prop and set(g.hyps) == set(p.hyps) for p in prev_ths)]
    if extra:
        return 'RESTS-ON-GAP', v('rests-on-gap', 'eval reports %s; the accepted expansion rests on unproved statements other than the premises: %s' % (
            show_th(ev), '; '.join(show_th(g) for g in extra[:3])))
    return 'agree', None


def localise(sub, outer_prevs, tag, depth):
    """first macro step of an exported expansion that violates the property on its own, as (class, violation), or None"""
    from kernel import theory
    by_id = {}

    def index(items):
        for it in items:
            by_id[str(it.id)] = it
            if it.subproof:
                index(it.subproof.items)
    index(sub.items)

    def walk(items):
        for it in items:
            if it.subproof:
                r = walk(it.subproof.items)
                if r is not None:
                    return r
            if it.rule in theory.global_macros:
                prevs = []
                ok = True
                for pid in it.prevs:
                    key = str(pid)
                    if key in by_id and by_id[key].th is not None:
                        prevs.append(by_id[key].th)
                    elif len(pid.id) == 1 and pid.id[0] < len(outer_prevs):
                        prevs.append(outer_prevs[pid.id[0]])
                    else:
                        ok = False
                        break
                if not ok:
                    continue
                try:
                    cls, bad = judge(it.rule, it.args, prevs, tag, depth=depth + 1)
                except Exception:
                    continue
                if bad is not None:
                    return cls, bad
        return None
    try:
        return walk(sub.items)
    except Exception:
        return None


def bool_subterms(t, limit=6):
    out = []

    def rec(x):
        if len(out) >= limit:
            return
        try:
            if not x.is_open() and str(x.get_type()) == 'bool' and x != t and x not in out:
                out.append(x)
        except Exception:
            pass
        if x.is_comb():
            rec(x.fun)
            rec(x.arg)
        elif x.is_abs():
            rec(x.body)
    rec(t)
    return out


def neighbourhood(name, args, prev_ths):
    """1-deviation neighbourhood: (tag, args, prevs)"""
    from kernel.term import Term, Var, BoolType
    from kernel.thm import Thm
    k = len(prev_ths)
    for i in range(k):
        yield 'premise %d dropped' % i, args, prev_ths[:i] + prev_ths[i + 1:]
    if k:
        yield 'first premise duplicated', args, [prev_ths[0]] + prev_ths
        H = Var('H_extra', BoolType)
        yield 'hypothesis added to the first premise', args, [Thm(prev_ths[0].prop, H, *prev_ths[0].hyps)] + prev_ths[1:]
        if k >= 2:
            yield 'hypothesis added to the last premise', args, prev_ths[:-1] + [Thm(prev_ths[-1].prop, H, *prev_ths[-1].hyps)]
    for i in range(k - 1):
        yield 'premises %d,%d swapped' % (i, i + 1), args, prev_ths[:i] + [prev_ths[i + 1], prev_ths[i]] + prev_ths[i + 2:]

    def term_variants(t):
        for s in bool_subterms(t):
            yield 'argument replaced by its subterm', s
        for j, th in enumerate(prev_ths[:3]):
            if th.prop != t:
                yield 'argument replaced by premise %d' % j, th.prop
    if isinstance(args, Term):
        for tag, s in term_variants(args):
            yield tag, s, prev_ths
    elif isinstance(args, tuple) and len(args) == 2 and isinstance(args[1], Term):
        for tag, s in term_variants(args[1]):
            yield tag, (args[0], s), prev_ths
    elif isinstance(args, list) and args and all(isinstance(a, Term) for a in args):
        for i in range(len(args)):
            yield 'argument %d dropped' % i, args[:i] + args[i + 1:], prev_ths
        if len(args) >= 2:
            yield 'arguments swapped', [args[1], args[0]] + args[2:], prev_ths


def tuple_key(name, args, prev_ths):
    return (name, show_args(args), tuple(show_th(t) for t in prev_ths))


def run_tuples(tuples, case, with_neighbours=True):
    seen = set()
    n_agree = 0
    hist = {}
    for name, args, prevs in tuples:
        todo = [('as recorded', args, prevs)]
        if with_neighbours:
            try:
                todo += list(neighbourhood(name, args, prevs))
            except Exception:
                pass
        for tag, a, p in todo:
            try:
                key = tuple_key(name, a, p)
            except Exception:
                continue
            if key in seen:
                continue
            seen.add(key)
            cls, bad = judge(name, a, p, tag)
            hist[cls] = hist.get(cls, 0) + 1
            if bad:
                return Outcome(cls, violation=bad)
            if cls == 'agree':
                n_agree += 1
    return Outcome('tuples-agree' if n_agree else 'no-tuple-compared', n_agree > 0,
                   obs='%s:%d' % ('/'.join(map(str, case[1:3])), n_agree))


# ------------------------------------------------------------------------------ library corpus

def collect_macro_steps(prf):
    from kernel import theory
    out = []

    def rec(items):
        for it in items:
            if it.subproof:
                rec(it.subproof.items)
            if it.rule in theory.global_macros:
                prevs = []
                ok = True
                for p in it.prevs:
                    try:
                        th = prf.find_item(p).th
                    except Exception:
                        th = None
                    if th is None:
                        ok = False
                        break
                    prevs.append(th)
                if ok:
                    out.append((it.rule, it.args, prevs))
    rec(prf.items)
    return out


def run_lib(case):
    from logic import context, basic
    from kernel import theory
    from server import server, items
    nm, iname = case[1], case[2]
    data = json.load(open(os.path.join(REPO, 'library', nm + '.json'), encoding='utf-8'))
    it = [x for x in data['content'] if x.get('ty') == 'thm' and x.get('name') == iname][0]
    try:
        basic.load_theory(nm, limit=('thm', iname))
        parsed = items.parse_item(it)
        if parsed.error is None:
            theory.thy.unchecked_extend(parsed.get_extension())
        context.set_context(None, vars=it['vars'])
        if it.get('steps'):
            state = server.parse_init_state(it['prop'])
            state.parse_steps(it['steps'])
        else:
            state = server.parse_proof(it['proof'])
            state.check_proof(compute_only=True)
    except RecursionError:
        return Outcome('lib-not-replayable')
    except Exception:
        return Outcome('lib-not-replayable')
    tuples = collect_macro_steps(state.prf)
    if not tuples:
        return Outcome('lib-no-macro-steps')
    return run_tuples(tuples, case)


# ------------------------------------------------------------------------------ generated inputs

def trees(op, nleaves, leaves):
    if nleaves == 1:
        return list(leaves)
    out = []
    for k in range(1, nleaves):
        for a in trees(op, k, leaves):
            for b in trees(op, nleaves - k, leaves):
                out.append((op, a, b))
    return out


def tree_term(t):
    from kernel.term import Var, BoolType, And, Or, true, false
    if isinstance(t, str):
        return {'true': true, 'false': false}.get(t) or Var(t, BoolType)
    a, b = tree_term(t[1]), tree_term(t[2])
    return And(a, b) if t[0] == 'and' else Or(a, b)


_GEN = {}


def gen_tuples(fam, tier):
    """list of (macro, args, prevs) for one family (built lazily inside the worker, after setup)"""
    key = (fam, tier)
    if key in _GEN:
        return _GEN[key]
    from kernel.term import Var, BoolType, Implies, And, Or, Not, Eq, Lambda, Forall, Exists, Inst, Nat, NatType, Int, IntType
    from kernel.type import TFun, TVar
    from kernel.thm import Thm

    b = bounds(tier)
    A, B, C = Var('A', BoolType), Var('B', BoolType), Var('C', BoolType)
    out = []
    if fam in ('imp_conj', 'imp_disj'):
        op = 'and' if fam == 'imp_conj' else 'or'
        leaves = ['A', 'B', 'C', 'true' if fam == 'imp_conj' else 'false']
        ts = []
        for n in range(1, b['tree_leaves'] + 1):
            ts += trees(op, n, leaves)
        for t1 in ts:
            for t2 in ts:
                out.append((fam, Implies(tree_term(t1), tree_term(t2)), []))
        if True:
            vts = []
            for n in range(1, b['tree_leaves'] + 1):
                vts += trees(op, n, ['A', 'B', 'C'])
            for t1 in vts:
                for t2 in vts:
                    out.append(('verit_' + fam, Implies(tree_term(t1), tree_term(t2)), []))
    elif fam == 'logic':
        Ta = TVar('a')
        P, Q = Var('P', TFun(Ta, BoolType)), Var('Q', TFun(Ta, BoolType))
        a, x, y = Var('a', Ta), Var('x', Ta), Var('y', Ta)
        f = Var('f', TFun(Ta, Ta))
        props = [A, B, And(A, B), Implies(A, B), Or(A, B), Not(A), Not(Not(A)), Eq(A, B), Implies(A, Implies(B, C)),
                 Forall(x, P(x)), Forall(x, Implies(P(x), Q(x))), P(a), Exists(x, P(x)), Eq(a, y), Eq(f(a), a),
                 Lambda(x, P(x))(a), Forall(x, Forall(y, Eq(x, y))), Implies(And(A, B), C), Eq(And(A, B), And(B, A))]
        pool = [Thm(p) for p in props] + [Thm(p, C) for p in props[:8]] + [Thm(p, p) for p in props[:4]]
        names1 = ['conjI', 'conjD1', 'conjD2', 'disjI1', 'disjE', 'mp', 'double_neg', 'negE', 'allE', 'exI', 'trueI', 'iffD1', 'sym', 'subst',
                  'conj_comm', 'disj_comm']
        from kernel import theory
        names1 = [n for n in names1 if theory.thy.has_theorem(n)]
        prev_tuples = [[]] + [[p] for p in pool] + [[p, q] for p in pool[:12] for q in pool[:12]]
        for nm in names1:
            for prevs in prev_tuples:
                out.append(('apply_theorem', nm, prevs))
            for prevs in prev_tuples[:40]:
                for inst in (Inst(A=C), Inst(A=B, B=A), Inst(P=Q), Inst(A=Not(A))):
                    out.append(('apply_theorem_for', (nm, inst), prevs))
        for prevs in prev_tuples:
            out.append(('apply_fact', None, prevs))
            out.append(('resolution', None, prevs))
            out.append(('beta_norm', None, prevs))
            out.append(('rewrite_fact_with_prev', None, prevs))
            out.append(('intros', None, prevs))
            out.append(('intros', [A], prevs))
        for prevs in [[p] for p in pool] + [[p, q] for p in pool[:10] for q in pool[:6]]:
            for t in (a, y, A):
                out.append(('apply_fact_for', [t], prevs))
                out.append(('forall_elim_gen', t, prevs))
        goals = props + [And(B, A), Or(B, A), Not(Not(Not(A))), P(y), Eq(y, a)]
        eqnames = [n for n in ('double_neg', 'conj_comm', 'disj_comm', 'de_morgan_thm1', 'not_imp', 'eq_sym_eq', 'disj_conv_imp', 'imp_conv_disj')
                   if theory.thy.has_theorem(n)]
        for g in goals:
            for prevs in [[]] + [[p] for p in pool[:14]]:
                out.append(('trivial', g, prevs))
                out.append(('rewrite_goal_with_prev', g, prevs))
                out.append(('rewrite_goal_with_prev_sym', g, prevs))
                for nm in eqnames:
                    out.append(('rewrite_goal', (nm, g), prevs))
                    out.append(('rewrite_goal_sym', (nm, g), prevs))
                for nm in names1[:6]:
                    out.append(('resolve_theorem', (nm, g), prevs))
        for nm in eqnames:
            for prevs in [[p] for p in pool] + [[p, q] for p in pool[:8] for q in pool[:8]]:
                out.append(('rewrite_fact', nm, prevs))
                out.append(('rewrite_fact_sym', nm, prevs))
    elif fam == 'nat':
        from mc.props import c10
        es = c10.arith_exprs('nat', b['nat_ops'])
        ts = [c10.to_hol('nat', e) for e in es]
        from kernel.term import less, less_eq
        import kernel.term as kt
        for t1 in ts:
            for t2 in ts:
                out.append(('nat_norm', Eq(t1, t2), []))
        ground = [t for t, e in zip(ts, es) if 'x' not in repr(e) and 'y' not in repr(e)]
        for t1 in ground:
            for t2 in ground:
                out.append(('nat_const_ineq', Not(Eq(t1, t2)), []))
                out.append(('nat_const_less_eq', kt.less_eq(NatType)(t1, t2), []))
                out.append(('nat_const_less', kt.less(NatType)(t1, t2), []))
        # the same goals over numerals of another type: eval must not claim what the (nat) expansion does not prove
        for a_ in range(4):
            for b_ in range(4):
                out.append(('nat_const_ineq', Not(Eq(Int(a_), Int(b_))), []))
                out.append(('nat_const_less_eq', kt.less_eq(IntType)(Int(a_), Int(b_)), []))
                out.append(('nat_const_less', kt.less(IntType)(Int(a_), Int(b_)), []))
    elif fam == 'int':
        import kernel.term as kt
        nums = [Int(k) for k in (-2, -1, 0, 1, 2, 3)]
        xi = Var('x', IntType)
        exprs = nums + [xi, xi + Int(1), Int(2) * xi, xi - Int(1), Int(0) - xi]
        for t1 in exprs:
            for t2 in exprs:
                for rel in (kt.less, kt.less_eq, kt.greater, kt.greater_eq):
                    g = rel(IntType)(t1, t2)
                    out.append(('int_eq_comparison', g, []))
                    out.append(('omega_norm_int_ineq', g, []))
                    out.append(('int_ineq', None, [Thm(g)]))
                    out.append(('int_ineq_mul_const', None, [Thm(g)]))
                out.append(('int_eq_macro', Eq(t1, t2), []))
                out.append(('int_eq_comparison', Eq(t1, t2), []))
    _GEN[key] = out
    return out


def gen_families(tier):
    from logic import basic
    basic.load_theory('int')
    return [(fam, len(gen_tuples(fam, tier))) for fam in ('imp_conj', 'imp_disj', 'logic', 'nat', 'int')]


def run_gen(case, tier):
    fam, i, j = case[1], case[2], case[3]
    ts = gen_tuples(fam, tier)
    return run_tuples(ts[i:j], case, with_neighbours=(fam == 'logic'))


def auto_invocations(tier):
    from fractions import Fraction
    from kernel.type import RealType
    from kernel.term import Var, Eq, Real, Not
    from kernel.thm import Thm
    import kernel.term as kt
    x = Var('x', RealType)
    half = Real(Fraction(1, 2))
    c = lambda nm, *a: kt.Const(nm, kt.TFun(*([RealType] * (len(a) + 1))))(*a)
    goals = [Eq((x ** half) * (x ** half), x), Eq(x * ((x ** half) * (x ** half)), x * x), Eq(c('sqrt', x) * c('sqrt', x), x),
             Eq(c('abs', x), x), Eq(x / x, Real(1)), Eq(c('exp', c('log', x)), x), Eq(c('log', c('exp', x)), x), Eq(x + Real(0), x)]
    if tier == 'quick':
        goals = goals[:5]
    conds = [x > Real(0), x >= Real(0), Not(Eq(x, Real(0)))]
    prevss = [[]] + [[Thm(cd)] for cd in conds] + [[Thm(cd, cd)] for cd in conds]
    return [('auto', g, pv) for g in goals for pv in prevss]


def auto_sessions(tier):
    n = len(auto_invocations(tier))
    return [(i, j) for i in range(n) for j in range(n)]


def run_auto(case, tier):
    """sessions of two invocations of the auto macro (it memoises normal forms across invocations)"""
    from logic import auto, basic
    basic.load_theory('realintegral')
    inv = auto_invocations(tier)
    n_agree = 0
    for i, j in auto_sessions(tier)[case[2]:case[3]]:
        auto.clear_cache()
        for step, k in enumerate((i, j)):
            name, a, p = inv[k]
            cls, bad = judge(name, a, p, 'invocation %d of the session [%s from %d premises; %s from %d premises], caches cleared before the session' % (
                step + 1, show_args(inv[i][1]), len(inv[i][2]), show_args(inv[j][1]), len(inv[j][2])))
            if bad:
                bad['signature'] += ' after ' + ('nothing' if step == 0 else '%s from [%s]' % (show_args(inv[i][1]), '; '.join(show_th(t) for t in inv[i][2])))
                return Outcome(cls, violation=bad)
            if cls == 'agree':
                n_agree += 1
    return Outcome('tuples-agree' if n_agree else 'no-tuple-compared', n_agree > 0, obs='auto%d:%d' % (case[2], n_agree))


def verit_pts_tuples(tier):
    """premise lists A_i <--> r_i with every choice of right sides from {B, C, D} (repeats adjacent and apart), n = 2..4, for the
    macros that combine equivalences componentwise"""
    from kernel.term import Var, BoolType, Eq
    from kernel.thm import Thm
    R = [Var(n, BoolType) for n in ('B', 'C', 'D')]
    out = []
    for n in (2, 3, 4):
        import itertools as it
        for rs in it.product(R, repeat=n):
            prevs = [Thm(Eq(Var('A%d' % (i + 1), BoolType), r)) for i, r in enumerate(rs)]
            for name in ('verit_conj_pts', 'verit_disj_pts'):
                out.append((name, None, prevs))
    return out


def run_verit_pts(case, tier):
    from logic import basic
    basic.load_theory('verit')
    return run_tuples(verit_pts_tuples(tier)[case[1]:case[2]], ['verit-pts', 'pts', case[1]], with_neighbours=False)


def run_verit(case, tier):
    """every step of a stored solver proof and its near misses (mc.props.c18), eval against expansion"""
    import io
    import contextlib
    from logic import basic
    from mc.props import c18
    basic.load_theory('verit')
    fname = case[1]
    per_rule = 3 if tier == 'quick' else 10
    try:
        with contextlib.redirect_stdout(io.StringIO()):
            steps = c18.replay_file(fname)
    except RecursionError:
        return Outcome('corpus-not-replayable')
    except Exception:
        return Outcome('corpus-not-replayable')
    count = {}
    n_agree = 0
    seen = set()
    for rule, args, prevs in steps:
        count[rule] = count.get(rule, 0) + 1
        if count[rule] > per_rule:
            continue
        if not c18.small_enough(args, prevs, 400 if tier == 'quick' else 1500):
            count[rule] -= 1
            continue
        todo = [('as produced by the solver', args, list(prevs))]
        try:
            todo += list(c18.near_misses(rule, args, list(prevs)))
        except Exception:
            pass
        for tag, a, p in todo:
            try:
                key = (rule, c18.show_args(a), tuple((q.prop, tuple(q.hyps)) for q in p))
            except Exception:
                continue
            if key in seen:
                continue
            seen.add(key)
            with contextlib.redirect_stdout(io.StringIO()):
                cls, bad = judge(rule, a, p, tag + ', ' + fname[:-len('.proof.gz')], show=c18.show_args)
            if bad:
                return Outcome(cls, violation=bad)
            if cls == 'agree':
                n_agree += 1
    return Outcome('tuples-agree' if n_agree else 'no-tuple-compared', n_agree > 0, obs='%s:%d' % (fname[:40], n_agree))


_TIER = ['quick']


def setup(tier):
    _TIER[0] = tier
    from logic import basic
    from data import nat, integer, real, proplogic, function  # noqa
    from data import set as hset  # noqa
    from imperative import imp  # noqa
    from logic import logic, auto  # noqa
    from server import server, method  # noqa
    from prover import z3wrapper
    z3wrapper.check_z3 = False
    try:
        from smt.veriT import verit_macro  # noqa
    except Exception:
        pass
    basic.load_theory('int')


def run(case):
    if case[0] == 'lib':
        return run_lib(case)
    if case[0] == 'auto':
        return run_auto(case, _TIER[0])
    if case[0] == 'verit':
        return run_verit(case, _TIER[0])
    if case[0] == 'verit-pts':
        return run_verit_pts(case, _TIER[0])
    from logic import basic
    basic.load_theory('int')
    return run_gen(case, _TIER[0])
