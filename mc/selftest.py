"""Self-tests of the oracles (run by MANIFEST.setup_cmd).  Each oracle module exposes selftest()."""
import importlib
import sys

from mc.engine import import_holpy

MODULES = ['mc.holsem', 'mc.numeric', 'mc.smtenc', 'mc.intnum']


def main():
    import_holpy()
    import kernel.term  # noqa: the repository must be importable from the working tree
    bad = 0
    for name in MODULES:
        m = importlib.import_module(name)
        try:
            n = m.selftest()
            print('selftest %-16s ok (%s)' % (name, n))
        except Exception as e:  # noqa
            import traceback
            traceback.print_exc()
            print('selftest %-16s FAILED: %s' % (name, e))
            bad += 1
    return 1 if bad else 0


if __name__ == '__main__':
    sys.exit(main())
