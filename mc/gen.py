"""Generator G: exhaustive, deterministic, simplest-first enumeration of well-typed reference terms."""
from mc import ref
from mc.ref import BOOL, fun, is_fun


class TermGen:
    """All well-typed terms (holpy size: atom 1, application 1+f+a, abstraction 1+body) over
    `atoms` (reference atoms) with binders of the types in `binder_types`.  Bound-variable names
    are chosen from `names` (first name for depth 0, second for depth 1, ...) unless `all_names`
    is set, in which case every name is used for every binder."""

    def __init__(self, atoms, binder_types, names=('x', 'y', 'z'), all_names=False, loose=0):
        self.atoms = list(atoms)
        self.binder_types = list(binder_types)
        self.names = names
        self.all_names = all_names
        self.loose = loose            # number of loose bound indices allowed at top level (their types = binder_types[0])
        self.memo = {}

    def gen(self, n, ctx=()):
        """list of (term, type) of size exactly n under bound context ctx (innermost first)"""
        key = (n, ctx)
        r = self.memo.get(key)
        if r is not None:
            return r
        out = []
        if n == 1:
            for a in self.atoms:
                out.append((a, a[2]))
            for i, T in enumerate(ctx):
                out.append((('b', i), T))
        else:
            # abstraction
            for T in self.binder_types:
                depth = len(ctx)
                names = self.names if self.all_names else (self.names[min(depth, len(self.names) - 1)],)
                for body, Tb in self.gen(n - 1, (T,) + ctx):
                    for nm in names:
                        out.append((('abs', nm, T, body), fun(T, Tb)))
            # application
            for k in range(1, n - 1):
                fs = [(f, Tf) for f, Tf in self.gen(k, ctx) if is_fun(Tf)]
                if not fs:
                    continue
                args = self.gen(n - 1 - k, ctx)
                for f, Tf in fs:
                    dom = Tf[2][0]
                    for a, Ta in args:
                        if Ta == dom:
                            out.append((('app', f, a), Tf[2][1]))
        self.memo[key] = out
        return out

    def upto(self, n, ctx=()):
        out = []
        for k in range(1, n + 1):
            out.extend(self.gen(k, ctx))
        return out


def types_upto(k, atoms):
    """all types of size <= k over the given atomic types and =>"""
    by = {1: list(atoms)}
    for n in range(2, k + 1):
        cur = []
        for a in range(1, n - 1):
            b = n - 1 - a
            if b < 1:
                continue
            for A in by.get(a, []):
                for B in by.get(b, []):
                    cur.append(fun(A, B))
        by[n] = cur
    out = []
    for n in range(1, k + 1):
        out.extend(by.get(n, []))
    return out
