"""Oracle S: finite standard models of HOL over reference terms (mc.ref).

A model assigns a finite non-empty carrier size to every type atom ('tv'|'stv', name); bool has
two elements; sigma=>tau is the full function space.  A value of a base type is an int, of a
function type a tuple indexed by the position of the argument in the (lexicographic) enumeration
of the argument type.  A valuation maps every free atom (variable, schematic variable or
uninterpreted constant - keyed by kind, name AND type) to a value.

valid(hyps, concl) enumerates all models with carrier sizes from `sizes` and all valuations.
"""
import itertools

from mc import ref
from mc.ref import BOOL, is_fun


class Undecided(Exception):
    pass


class OutOfWork(Exception):
    pass


WORK = [None]          # optional budget of application evaluations for one check_valid call (None = unlimited)
DOM_CAP = 600          # largest carrier that is ever enumerated
VAL_CAP = 60000        # valuations per model


class Model:
    def __init__(self, sizes):
        self.sizes = sizes          # type atom -> int
        self._dom = {}
        self._size = {}

    def size(self, T):
        s = self._size.get(T)
        if s is not None:
            return s
        if T == BOOL:
            s = 2
        elif T[0] in ('tv', 'stv'):
            s = self.sizes[T]
        elif is_fun(T):
            a, b = self.size(T[2][0]), self.size(T[2][1])
            s = b ** a
            if s > 10 ** 9:
                s = 10 ** 9
        else:
            raise Undecided('no finite interpretation for type %s' % ref.show_type(T))
        self._size[T] = s
        return s

    def dom(self, T):
        d = self._dom.get(T)
        if d is not None:
            return d
        n = self.size(T)
        if n > DOM_CAP:
            raise Undecided('carrier of %s too large (%d)' % (ref.show_type(T), n))
        if is_fun(T):
            d = list(itertools.product(self.dom(T[2][1]), repeat=self.size(T[2][0])))
        else:
            d = list(range(n))
        self._dom[T] = d
        return d

    def index(self, T, v):
        if is_fun(T):
            B = T[2][1]
            nb = self.size(B)
            i = 0
            for x in v:
                i = i * nb + self.index(B, x)
            return i
        return v

    # -------------------------------------------------------------- interpreted constants
    def mk_fun(self, argTs, fn):
        if not argTs:
            return fn()
        return tuple(self.mk_fun(argTs[1:], lambda *rest, d=d: fn(d, *rest)) for d in self.dom(argTs[0]))

    def const_value(self, name, T):
        """full table of an interpreted constant used as a value (partial application etc.)"""
        argTs = []
        R = T
        n = INTERP[name][0]
        for _ in range(n):
            if not is_fun(R):
                raise Undecided('constant %s at odd type' % name)
            argTs.append(R[2][0])
            R = R[2][1]
        f = INTERP[name][1]
        return self.mk_fun(argTs, lambda *vals: f(self, T, argTs, *vals))


def _eq(m, T, argTs, a, b):
    return 1 if a == b else 0


def _all(m, T, argTs, p):
    return 1 if all(p) else 0


def _ex(m, T, argTs, p):
    return 1 if any(p) else 0


def _ex1(m, T, argTs, p):
    return 1 if sum(1 for x in p if x) == 1 else 0


def _bool2(shape_fn):
    return shape_fn


def _is(Tpat):
    return lambda T: T == Tpat


def _shape_eq(T):
    return is_fun(T) and is_fun(T[2][1]) and T[2][0] == T[2][1][2][0] and T[2][1][2][1] == BOOL


def _shape_q(T):
    return is_fun(T) and T[2][1] == BOOL and is_fun(T[2][0]) and T[2][0][2][1] == BOOL


def _shape_if(T):
    try:
        return T[2][0] == BOOL and T[2][1][2][0] == T[2][1][2][1][2][0] == T[2][1][2][1][2][1]
    except (IndexError, TypeError):
        return False


B2 = ref.funs(BOOL, BOOL, BOOL)
INTERP = {
    'equals': (2, _eq, _shape_eq),
    'implies': (2, lambda m, T, A, a, b: 1 if (not a) or b else 0, _is(B2)),
    'all': (1, _all, _shape_q),
    'exists': (1, _ex, _shape_q),
    'exists1': (1, _ex1, _shape_q),
    'true': (0, lambda m, T, A: 1, _is(BOOL)),
    'false': (0, lambda m, T, A: 0, _is(BOOL)),
    'neg': (1, lambda m, T, A, a: 0 if a else 1, _is(ref.fun(BOOL, BOOL))),
    'conj': (2, lambda m, T, A, a, b: 1 if a and b else 0, _is(B2)),
    'disj': (2, lambda m, T, A, a, b: 1 if a or b else 0, _is(B2)),
    'IF': (3, lambda m, T, A, c, a, b: a if c else b, _shape_if),
    'xor': (2, lambda m, T, A, a, b: 1 if bool(a) != bool(b) else 0, _is(B2)),
}


# The evaluator above needs bound-variable types for heads that are bound variables applied to
# arguments.  Rather than thread them through ev, terms are annotated once: every application
# head that is a bound variable or an abstraction gets its type from a typing pass.

def annotate(t, bs=()):
    """returns (term', type) where applications carry no extra info but bound heads are wrapped:
    ('bt', n, T) replaces ('b', n) so that its type is known."""
    k = t[0]
    if k in ('sv', 'v', 'c'):
        return t, t[2]
    if k == 'b':
        if t[1] >= len(bs):
            raise ref.IllTyped('loose bound')
        return ('bt', t[1], bs[t[1]]), bs[t[1]]
    if k == 'abs':
        b, Tb = annotate(t[3], (t[2],) + tuple(bs))
        return ('abs', t[1], t[2], b, ref.fun(t[2], Tb)), ref.fun(t[2], Tb)
    f, Tf = annotate(t[1], bs)
    a, Ta = annotate(t[2], bs)
    if not is_fun(Tf) or Tf[2][0] != Ta:
        raise ref.IllTyped('application')
    return ('app', f, a), Tf[2][1]


class Model2(Model):
    """evaluation over annotated terms"""

    def ev(self, t, env, bs):
        k = t[0]
        if k == 'app':
            if WORK[0] is not None:
                WORK[0] -= 1
                if WORK[0] < 0:
                    raise OutOfWork()
            args = []
            h = t
            while h[0] == 'app':
                args.append(h[2])
                h = h[1]
            args.reverse()
            if h[0] == 'c' and h[1] in INTERP:
                n, f, shape = INTERP[h[1]]
                if len(args) >= n and shape(h[2]):
                    R = h[2]
                    argTs = []
                    for _ in range(n):
                        argTs.append(R[2][0])
                        R = R[2][1]
                    nm = h[1]
                    if nm == 'implies':
                        v = 1 if (not self.ev(args[0], env, bs)) or self.ev(args[1], env, bs) else 0
                    elif nm == 'conj':
                        v = 1 if self.ev(args[0], env, bs) and self.ev(args[1], env, bs) else 0
                    elif nm == 'disj':
                        v = 1 if self.ev(args[0], env, bs) or self.ev(args[1], env, bs) else 0
                    elif nm == 'IF':
                        v = self.ev(args[1], env, bs) if self.ev(args[0], env, bs) else self.ev(args[2], env, bs)
                    else:
                        v = f(self, h[2], argTs, *[self.ev(a, env, bs) for a in args[:n]])
                    for a in args[n:]:
                        v = v[self.index(R[2][0], self.ev(a, env, bs))]
                        R = R[2][1]
                    return v
            v = self.ev(h, env, bs)
            R = h[2] if h[0] in ('sv', 'v', 'c', 'bt') else h[4]
            for a in args:
                v = v[self.index(R[2][0], self.ev(a, env, bs))]
                R = R[2][1]
            return v
        if k == 'abs':
            return tuple(self.ev(t[3], env, (d,) + bs) for d in self.dom(t[2]))
        if k == 'bt':
            return bs[t[1]]
        if k == 'c' and t[1] in INTERP and INTERP[t[1]][2](t[2]):
            key = ('#', t)
            v = env.get(key)
            if v is None:
                v = self.const_value(t[1], t[2])
                env[key] = v
            return v
        return env[t]


def free_objects(terms):
    """free atoms that need a valuation (uninterpreted), and the type atoms"""
    atoms = []
    tyatoms = []
    for t in terms:
        for a in ref.free_atoms(t):
            if a[0] == 'c' and a[1] in INTERP and INTERP[a[1]][2](a[2]):
                continue
            if a not in atoms:
                atoms.append(a)
        ref.term_type_atoms(t, tyatoms)
    return atoms, tyatoms


def models(tyatoms, sizes):
    for combo in itertools.product(sizes, repeat=len(tyatoms)):
        yield Model2(dict(zip(tyatoms, combo)))


def check_valid(hyps, concl, sizes=(1, 2), val_cap=VAL_CAP, work=None):
    """Returns ('valid', n_valuations) | ('invalid', countermodel) | ('illtyped', msg) | ('undecided', why).
    'valid' means: true in all explored finite models.  work = optional budget of evaluation steps (deterministic)"""
    WORK[0] = work
    try:
        return _check_valid(hyps, concl, sizes, val_cap)
    except OutOfWork:
        return ('undecided', 'work budget exhausted')
    finally:
        WORK[0] = None


def _check_valid(hyps, concl, sizes, val_cap):
    terms = list(hyps) + [concl]
    ann = []
    for t in terms:
        try:
            a, T = annotate(t)
        except ref.IllTyped as e:
            return ('illtyped', '%s: %s' % (ref.show(t), e))
        if T != BOOL:
            return ('illtyped', '%s has type %s' % (ref.show(t), ref.show_type(T)))
        ann.append(a)
    atoms, tyatoms = free_objects(terms)
    total = 0
    undec = None
    for m in models(tyatoms, sizes):
        try:
            doms = [m.dom(a[2]) for a in atoms]
        except Undecided as e:
            undec = str(e)
            continue
        n = 1
        for d in doms:
            n *= len(d)
        if n > val_cap:
            undec = 'too many valuations (%d)' % n
            continue
        try:
            for vals in itertools.product(*doms):
                env = dict(zip(atoms, vals))
                total += 1
                if all(m.ev(h, env, ()) for h in ann[:-1]) and not m.ev(ann[-1], env, ()):
                    cm = {'carriers': {ref.show_type(k): v for k, v in m.sizes.items()},
                          'valuation': {ref.show(a): repr(v) for a, v in zip(atoms, vals)}}
                    return ('invalid', cm)
        except Undecided as e:
            undec = str(e)
            continue
    if undec is not None:
        return ('undecided', undec)
    return ('valid', total)


def denot_equal(t1, t2, sizes=(1, 2), val_cap=VAL_CAP):
    """Are two terms of the same type equal in every explored model/valuation?
    ('equal', n) | ('differ', cm) | ('illtyped', ..) | ('undecided', ..)"""
    try:
        a1, T1 = annotate(t1)
        a2, T2 = annotate(t2)
    except ref.IllTyped as e:
        return ('illtyped', str(e))
    if T1 != T2:
        return ('illtyped', 'types differ: %s vs %s' % (ref.show_type(T1), ref.show_type(T2)))
    atoms, tyatoms = free_objects([t1, t2])
    total = 0
    undec = None
    for m in models(tyatoms, sizes):
        try:
            doms = [m.dom(a[2]) for a in atoms]
            n = 1
            for d in doms:
                n *= len(d)
            if n > val_cap:
                undec = 'too many valuations'
                continue
            for vals in itertools.product(*doms):
                env = dict(zip(atoms, vals))
                total += 1
                if m.ev(a1, env, ()) != m.ev(a2, env, ()):
                    return ('differ', {'carriers': {ref.show_type(k): v for k, v in m.sizes.items()},
                                       'valuation': {ref.show(a): repr(v) for a, v in zip(atoms, vals)}})
        except Undecided as e:
            undec = str(e)
    if undec:
        return ('undecided', undec)
    return ('equal', total)


# ------------------------------------------------------------------------------------ self test

def selftest():
    from mc.engine import import_holpy
    import_holpy()
    import json
    from logic import basic
    from kernel import theory
    basic.load_theory('logic_base')
    n = 0
    # all base-logic axioms must be valid (Some/The are uninterpreted: skip those that mention them)
    data = json.load(open(basic.user_file('logic_base')))
    for it in data['content']:
        if it['ty'] == 'thm.ax' or it['ty'] == 'thm':
            th = theory.thy.get_theorem(it['name'], svar=True)
            hyps, prop = ref.conv_thm(th)
            names = [a[1] for a in ref.free_atoms(prop) if a[0] == 'c']
            res = check_valid(hyps, prop, sizes=(1, 2))
            if 'Some' in names or 'The' in names:
                continue
            assert res[0] == 'valid', (it['name'], res)
            n += 1
    # known-invalid sequents must be refuted
    a = ('tv', 'a')
    p, q = ('v', 'p', BOOL), ('v', 'q', BOOL)
    x, y = ('v', 'x', a), ('v', 'y', a)
    f = ('v', 'f', ref.fun(a, BOOL))

    def app(h, *args):
        for z in args:
            h = ('app', h, z)
        return h
    imp = ('c', 'implies', B2)
    eqa = ('c', 'equals', ref.funs(a, a, BOOL))
    eqb = ('c', 'equals', ref.funs(BOOL, BOOL, BOOL))
    alla = ('c', 'all', ref.fun(ref.fun(a, BOOL), BOOL))
    bad = [
        ((), ('c', 'false', BOOL)),
        ((), p),
        ((), app(imp, p, q)),
        ((p,), q),
        ((), app(eqa, x, y)),
        ((), app(eqb, p, q)),
        ((app(f, x),), app(alla, ('abs', 'z', a, app(f, ('b', 0))))),
        ((), app(alla, ('abs', 'z', a, app(eqa, ('b', 0), x)))),
        ((), app(imp, app(imp, p, q), app(imp, q, p))),
        ((), app(eqa, app(('abs', 'u', a, ('b', 0)), x), y)),
    ]
    for hyps, c in bad:
        res = check_valid(hyps, c)
        assert res[0] == 'invalid', (ref.show_thm((hyps, c)), res)
        n += 1
    good = [
        ((), app(imp, p, p)),
        ((p,), p),
        ((), app(eqa, app(('abs', 'u', a, ('b', 0)), x), x)),
        ((app(alla, ('abs', 'z', a, app(f, ('b', 0)))),), app(f, x)),
        ((), app(alla, ('abs', 'z', a, app(eqa, ('b', 0), ('b', 0))))),
    ]
    for hyps, c in good:
        res = check_valid(hyps, c)
        assert res[0] == 'valid', (ref.show_thm((hyps, c)), res)
        n += 1
    assert check_valid((), app(eqa, p, x))[0] == 'illtyped'
    assert check_valid((), ('b', 0))[0] == 'illtyped'
    return '%d sequents' % n
