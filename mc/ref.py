"""Oracle R: reference terms and types, independent of holpy's own Term/Type methods.

Types   ('tv', name) | ('stv', name) | ('tc', name, (args...))
Terms   ('sv', name, T) | ('v', name, T) | ('c', name, T) | ('app', f, a) | ('abs', name, T, body) | ('b', n)

Conversion from holpy objects reads public *fields* only (ty, name, T, fun, arg, var_name, var_T,
body, n, args) and never calls holpy's __eq__/__hash__/subst/... .
"""

BOOL = ('tc', 'bool', ())


def fun(a, b):
    return ('tc', 'fun', (a, b))


def funs(*ts):
    r = ts[-1]
    for a in reversed(ts[:-1]):
        r = fun(a, r)
    return r


def is_fun(T):
    return T[0] == 'tc' and T[1] == 'fun' and len(T[2]) == 2


class IllTyped(Exception):
    pass


class BadObject(Exception):
    """a holpy object that is not a well-formed Term/Type at all"""


# ------------------------------------------------------------------ conversion holpy -> ref

def conv_type(T):
    ty = T.ty
    if ty == 0:
        return ('stv', T.name)
    if ty == 1:
        return ('tv', T.name)
    if ty == 2:
        return ('tc', T.name, tuple(conv_type(a) for a in T.args))
    raise BadObject('type kind %r' % (ty,))


def conv_term(t):
    # iterative on application spines to keep recursion shallow
    ty = t.ty
    if ty == 0:
        return ('sv', t.name, conv_type(t.T))
    if ty == 1:
        return ('v', t.name, conv_type(t.T))
    if ty == 2:
        return ('c', t.name, conv_type(t.T))
    if ty == 3:
        return ('app', conv_term(t.fun), conv_term(t.arg))
    if ty == 4:
        return ('abs', t.var_name, conv_type(t.var_T), conv_term(t.body))
    if ty == 5:
        return ('b', t.n)
    raise BadObject('term kind %r' % (ty,))


def conv_thm(th):
    return (tuple(conv_term(h) for h in th.hyps), conv_term(th.prop))


# ------------------------------------------------------------------ conversion ref -> holpy

def to_type(T):
    from kernel.type import STVar, TVar, TConst
    if T[0] == 'stv':
        return STVar(T[1])
    if T[0] == 'tv':
        return TVar(T[1])
    return TConst(T[1], *[to_type(a) for a in T[2]])


def to_term(t):
    from kernel.term import SVar, Var, Const, Comb, Abs, Bound
    k = t[0]
    if k == 'sv':
        return SVar(t[1], to_type(t[2]))
    if k == 'v':
        return Var(t[1], to_type(t[2]))
    if k == 'c':
        return Const(t[1], to_type(t[2]))
    if k == 'app':
        return Comb(to_term(t[1]), to_term(t[2]))
    if k == 'abs':
        return Abs(t[1], to_type(t[2]), to_term(t[3]))
    if k == 'b':
        return Bound(t[1])
    raise ValueError(t)


# ------------------------------------------------------------------ alpha key, typing

def akey(t):
    """structural key modulo names of bound variables"""
    k = t[0]
    if k == 'app':
        return ('app', akey(t[1]), akey(t[2]))
    if k == 'abs':
        return ('abs', t[2], akey(t[3]))
    return t


def thm_key(th):
    hyps, prop = th
    return (frozenset(akey(h) for h in hyps), akey(prop))


def typeof(t, bs=()):
    k = t[0]
    if k in ('sv', 'v', 'c'):
        return t[2]
    if k == 'app':
        tf = typeof(t[1], bs)
        ta = typeof(t[2], bs)
        if not is_fun(tf):
            raise IllTyped('application of non-function')
        if tf[2][0] != ta:
            raise IllTyped('argument type mismatch')
        return tf[2][1]
    if k == 'abs':
        return fun(t[2], typeof(t[3], (t[2],) + tuple(bs)))
    if k == 'b':
        if t[1] >= len(bs) or t[1] < 0:
            raise IllTyped('loose bound variable')
        return bs[t[1]]
    raise ValueError(t)


def well_typed_bool(t):
    try:
        return typeof(t) == BOOL
    except IllTyped:
        return False


def size(t):
    k = t[0]
    if k == 'app':
        return 1 + size(t[1]) + size(t[2])
    if k == 'abs':
        return 1 + size(t[3])
    return 1


def is_open(t, n=0):
    k = t[0]
    if k == 'app':
        return is_open(t[1], n) or is_open(t[2], n)
    if k == 'abs':
        return is_open(t[3], n + 1)
    if k == 'b':
        return t[1] >= n
    return False


# ------------------------------------------------------------------ textbook de Bruijn operations

def shift(t, d, c=0):
    k = t[0]
    if k == 'app':
        return ('app', shift(t[1], d, c), shift(t[2], d, c))
    if k == 'abs':
        return ('abs', t[1], t[2], shift(t[3], d, c + 1))
    if k == 'b':
        return ('b', t[1] + d) if t[1] >= c else t
    return t


def inst_bound(body, s, n=0):
    """body[s / Bound n], decrementing outer bound variables (beta step on Abs body)"""
    k = body[0]
    if k == 'app':
        return ('app', inst_bound(body[1], s, n), inst_bound(body[2], s, n))
    if k == 'abs':
        return ('abs', body[1], body[2], inst_bound(body[3], s, n + 1))
    if k == 'b':
        if body[1] == n:
            return shift(s, n)
        if body[1] > n:
            return ('b', body[1] - 1)
        return body
    return body


class OutOfFuel(Exception):
    pass


def beta_nf(t, fuel=2000):
    f = [fuel]

    def nf(t):
        k = t[0]
        if k == 'app':
            h = nf(t[1])
            a = nf(t[2])
            if h[0] == 'abs':
                f[0] -= 1
                if f[0] < 0:
                    raise OutOfFuel()
                return nf(inst_bound(h[3], a))
            return ('app', h, a)
        if k == 'abs':
            return ('abs', t[1], t[2], nf(t[3]))
        return t
    return nf(t)


def occurs_bound(t, n):
    k = t[0]
    if k == 'app':
        return occurs_bound(t[1], n) or occurs_bound(t[2], n)
    if k == 'abs':
        return occurs_bound(t[3], n + 1)
    if k == 'b':
        return t[1] == n
    return False


def eta_nf(t):
    """eta-contract everywhere (on a beta-normal term the result is beta-eta normal)"""
    k = t[0]
    if k == 'app':
        return ('app', eta_nf(t[1]), eta_nf(t[2]))
    if k == 'abs':
        b = eta_nf(t[3])
        if b[0] == 'app' and b[2] == ('b', 0) and not occurs_bound(b[1], 0):
            return shift(b[1], -1)
        return ('abs', t[1], t[2], b)
    return t


def beta_eta_nf(t, fuel=2000):
    return eta_nf(beta_nf(t, fuel))


def abstract(t, var, n=0):
    """replace the free variable `var` (a ('v'|'sv', name, T) tuple, exact match incl. type) by Bound n"""
    k = t[0]
    if k == 'app':
        return ('app', abstract(t[1], var, n), abstract(t[2], var, n))
    if k == 'abs':
        return ('abs', t[1], t[2], abstract(t[3], var, n + 1))
    if t == var:
        return ('b', n)
    return t


def tysubst_type(T, m):
    """m maps ('stv'|'tv', name) -> type"""
    if T[0] == 'tc':
        return ('tc', T[1], tuple(tysubst_type(a, m) for a in T[2]))
    return m.get(T, T)


def tysubst(t, m):
    k = t[0]
    if k in ('sv', 'v', 'c'):
        return (k, t[1], tysubst_type(t[2], m))
    if k == 'app':
        return ('app', tysubst(t[1], m), tysubst(t[2], m))
    if k == 'abs':
        return ('abs', t[1], tysubst_type(t[2], m), tysubst(t[3], m))
    return t


def subst_free(t, m, depth=0):
    """m maps exact atoms ('v'|'sv', name, T) -> term; replacement terms are lifted under binders"""
    k = t[0]
    if k == 'app':
        return ('app', subst_free(t[1], m, depth), subst_free(t[2], m, depth))
    if k == 'abs':
        return ('abs', t[1], t[2], subst_free(t[3], m, depth + 1))
    if k in ('v', 'sv') and t in m:
        return shift(m[t], depth)
    return t


def free_atoms(t, acc=None):
    """ordered list of distinct free atoms (sv/v/c tuples)"""
    if acc is None:
        acc = []
    k = t[0]
    if k == 'app':
        free_atoms(t[1], acc)
        free_atoms(t[2], acc)
    elif k == 'abs':
        free_atoms(t[3], acc)
    elif k != 'b':
        if t not in acc:
            acc.append(t)
    return acc


def type_atoms(T, acc):
    if T[0] == 'tc':
        for a in T[2]:
            type_atoms(a, acc)
    elif T not in acc:
        acc.append(T)
    return acc


def term_type_atoms(t, acc=None):
    if acc is None:
        acc = []
    k = t[0]
    if k in ('sv', 'v', 'c'):
        type_atoms(t[2], acc)
    elif k == 'app':
        term_type_atoms(t[1], acc)
        term_type_atoms(t[2], acc)
    elif k == 'abs':
        type_atoms(t[2], acc)
        term_type_atoms(t[3], acc)
    return acc


# ------------------------------------------------------------------ printing

def show_type(T):
    if T[0] == 'tv':
        return "'" + T[1]
    if T[0] == 'stv':
        return "?'" + T[1]
    if is_fun(T):
        a = show_type(T[2][0])
        if is_fun(T[2][0]):
            a = '(' + a + ')'
        return a + '=>' + show_type(T[2][1])
    if not T[2]:
        return T[1]
    return '(' + ','.join(show_type(a) for a in T[2]) + ')' + T[1]


def show(t, bs=()):
    k = t[0]
    if k == 'sv':
        return '?%s:%s' % (t[1], show_type(t[2]))
    if k == 'v':
        return '%s:%s' % (t[1], show_type(t[2]))
    if k == 'c':
        return '%s@%s' % (t[1], show_type(t[2])) if t[1] in ('equals', 'all', 'exists') else t[1]
    if k == 'app':
        return '(%s %s)' % (show(t[1], bs), show(t[2], bs))
    if k == 'abs':
        return '(%%%s:%s. %s)' % (t[1], show_type(t[2]), show(t[3], (t[1],) + tuple(bs)))
    if k == 'b':
        return 'B%d' % t[1]
    return repr(t)


def show_thm(th):
    hyps, prop = th
    return ', '.join(show(h) for h in hyps) + ' |- ' + show(prop)
