"""E2 explorer over server.method.ProofState shared by C13 (editing invariants) and C14 (suggestions).

A state is the history of editing events that reaches it; build(hist) replays the history on a fresh
ProofState (live application); expansion applies each enabled event to a copy.copy of the state (copy
application), so both modes are exercised and copy isolation is an invariant.  States are merged by
(variables, exported proof), see canon().
"""
import copy
import json

from mc import ref
from mc.engine import Outcome, tier_param

GOALS = [
    # (theory, vars, proposition)
    ('logic_base', {'A': 'bool', 'B': 'bool'}, 'A & B --> B & A'),
    ('logic_base', {'A': 'bool', 'B': 'bool'}, 'A | B --> B | A'),
    ('logic_base', {'A': 'bool', 'B': 'bool'}, '(A --> B) --> (~B --> ~A)'),
    ('logic_base', {'P': "'a => bool", 'Q': "'a => bool"}, '(!x. P x & Q x) --> (!x. P x)'),
    ('logic_base', {'P': "'a => bool", 'Q': "'a => bool"}, '(?x. P x) --> (!x. P x --> Q x) --> (?x. Q x)'),
    ('logic_base', {'P': "'a => bool", 'a': "'a"}, 'P a --> (?x. P x)'),
    ('logic_base', {'P': "'a => bool", 'Q': "'a => bool", 'a': "'a"}, '(!x. P x --> Q x) --> P a --> Q a'),
    ('logic', {'A': 'bool'}, '~~A --> A'),
    ('logic', {'A': 'bool', 'B': 'bool', 'C': 'bool'}, '(A & B) & C --> A & (B & C)'),
    ('nat', {'n': 'nat'}, 'n + 0 = n'),
    ('nat', {'m': 'nat', 'n': 'nat'}, 'Suc m = Suc n --> m = n'),
    ('set', {'A': "'a set", 'B': "'a set"}, 'A Sub A Un B'),
    ('logic_base', {'R': "'a => 'a => bool", 'x': "'a"}, '(!x. !y. R x y) --> (!y. R x y)'),
    ('logic_base', {'P': "'a => bool", 'C': 'bool'}, '(?x. P x) --> (?y. P y) --> C --> C'),
    ('logic_base', {'A': 'bool', 'B': 'bool', 'C': 'bool'}, "A & B --> (!x::'a. C --> A)"),
    ('logic_base', {'P': "'a => bool", 'Q': "'a => bool", 'C': 'bool'}, '(?x. P x) --> (?y. Q y) --> C'),
]


def bounds(tier):
    # two menus per goal: 'wide' (every selection of <= 2 facts, cut / cases / introduction / new_var) to a smaller depth and
    # 'narrow' (selections of <= 1 fact, cut and introduction only) one or two steps deeper
    return tier_param(tier, {'depth': {'wide': 3, 'narrow': 4}, 'state_cap_per_goal': {'wide': 2500, 'narrow': 4000},
                             'library_items': 'logic_base, logic (every prefix of the recorded steps)'},
                      # (one more level of depth did not finish within 30 minutes: thorough = same depths, larger caps, more library)
                      {'depth': {'wide': 3, 'narrow': 4}, 'state_cap_per_goal': {'wide': 5000, 'narrow': 8000},
                       'library_items': 'logic_base, logic, set'})


class Harness:
    def __init__(self, mode):
        self.mode = mode     # 'C13' | 'C14'

    # ------------------------------------------------------------------ state helpers
    def init_state(self, goal):
        from logic import context, basic
        from server import server
        thy, vs, prop = goal
        context.set_context(thy, vars=vs)
        return server.parse_init_state(prop)

    def export(self, state):
        from syntax.settings import global_setting
        with global_setting(unicode=False, highlight=False):
            return state.export_proof()

    def canon(self, state):
        """two states with the same exported proof and variables have the same futures: every method reads only
        state.prf (ids, rules, args, prevs, sequents - all in the export) and state.vars"""
        vs = sorted((v.name, str(v.T)) for v in state.vars)
        return json.dumps([vs, self.export(state)], sort_keys=True, default=str)

    def gaps(self, state):
        out = []

        def rec(items):
            for it in items:
                if it.rule == 'sorry':
                    out.append((str(it.id), it.th))
                if it.subproof:
                    rec(it.subproof.items)
        rec(state.prf.items)
        return out

    def facts_before(self, state, gid):
        """ids of lines visible from the gap (earlier, visible) that carry a sequent"""
        from kernel.proof import ItemID
        out = []

        def rec(items):
            for it in items:
                if it.th is not None and it.rule != 'sorry' and gid.can_depend_on(it.id):
                    out.append(str(it.id))
                if it.subproof:
                    rec(it.subproof.items)
        rec(state.prf.items)
        return out

    # ------------------------------------------------------------------ events
    def events(self, state, profile='wide'):
        """enabled events: every suggestion of search_method for every gap and every selection of <=2 visible facts,
        plus parameterised operations with parameters from a menu derived from the state"""
        from kernel.proof import ItemID
        evs = []
        for gid_s, th in self.gaps(state):
            gid = ItemID(gid_s)
            facts = self.facts_before(state, gid)[-4:]
            sels = [[]] + [[f] for f in facts]
            if profile == 'wide':
                sels += [[f, g] for f in facts for g in facts if f != g]
            for sel in sels:
                try:
                    res = state.search_method(gid_s, sel)
                except Exception as e:
                    evs.append(('search-raises', gid_s, sel, type(e).__name__ + ': ' + str(e)[:100]))
                    continue
                for r in res:
                    step = {k: v for k, v in r.items() if not k.startswith('_') and k != 'display'}
                    adv = {'_goal': r.get('_goal'), '_fact': r.get('_fact')}
                    evs.append(('suggest', step, adv))
                    # declared parameters that the suggestion leaves open are supplied from a menu derived from the state
                    from server import method
                    sig = method.global_methods[step['method_name']].sig
                    open_params = [p for p in sig if p not in step]
                    if open_params == ['names']:
                        for nm in ('x1', 'w'):
                            evs.append(('suggest-filled', dict(step, names=nm), adv))
                    elif open_params == ['s']:
                        try:
                            scope = sorted(state.get_vars(gid).items())
                        except Exception:
                            scope = []
                        for nm, T in scope[:3]:
                            evs.append(('suggest-filled', dict(step, s=nm), adv))
            # parameterised operations.  Formulas that already occur as the statement of a line are left out of the
            # cut / cases menus: duplicated sequents trigger the known family F-C13-2 (see known_findings.json, whose
            # concrete histories are replayed separately by known_histories()).
            present = self.line_props(state)
            subs = [x for x in self.subformulas(th.prop) if x not in present]
            hsubs = []
            for hyp in th.hyps:
                hsubs += [x for x in self.subformulas(hyp) if x not in present and x not in subs and x not in hsubs]
            for sub in subs[:3] + hsubs[:2]:
                evs.append(('param', {'method_name': 'cut', 'goal_id': gid_s, 'goal': sub}))
            if profile == 'narrow':
                evs.append(('param', {'method_name': 'introduction', 'goal_id': gid_s, 'names': 'x'}))
                continue
            for sub in subs[:2]:
                evs.append(('param', {'method_name': 'cases', 'goal_id': gid_s, 'case': sub}))
            for nm in ('x', 'x1'):
                evs.append(('param', {'method_name': 'introduction', 'goal_id': gid_s, 'names': nm}))
            evs.append(('param', {'method_name': 'new_var', 'goal_id': gid_s, 'name': 'z', 'type': "'a"}))
        # forward steps suggested for one gap are also tried at every other gap (the suggestion filter drops a forward step
        # whose result is the goal itself; users can still ask for it)
        from kernel.proof import ItemID as _ID
        gids = [g for g, _ in self.gaps(state)]
        seen_steps = {json.dumps(e[1], sort_keys=True) for e in evs if e[0] != 'search-raises'}
        # the two projections of a visible conjunction can be asked for at every gap
        for g in gids:
            for f in self.facts_before(state, _ID(g))[-4:]:
                try:
                    is_conj = state.get_proof_item(_ID(f)).th.prop.is_conj()
                except Exception:
                    is_conj = False
                if is_conj:
                    for thname in ('conjD1', 'conjD2'):
                        st = {'theorem': thname, 'method_name': 'apply_forward_step', 'goal_id': g, 'fact_ids': [f]}
                        k = json.dumps(st, sort_keys=True)
                        if k not in seen_steps:
                            seen_steps.add(k)
                            evs.append(('param', st))
        for e in list(evs):
            if e[0] == 'suggest' and e[1].get('method_name') == 'apply_forward_step':
                for g in gids:
                    if g != e[1]['goal_id']:
                        st = dict(e[1], goal_id=g)
                        k = json.dumps(st, sort_keys=True)
                        if k not in seen_steps:
                            seen_steps.add(k)
                            evs.append(('param', st))
        return [e for e in evs if e is not None]

    def line_props(self, state):
        from syntax import printer
        from syntax.settings import global_setting
        out = set()

        def rec(items):
            for it in items:
                if it.th is not None:
                    with global_setting(unicode=False, highlight=False):
                        out.add(printer.print_term(it.th.prop))
                if it.subproof:
                    rec(it.subproof.items)
        rec(state.prf.items)
        return out

    def subformulas(self, t):
        from syntax import printer
        from syntax.settings import global_setting
        out = []

        def rec(x):
            try:
                if x.get_type().is_tconst() and x.get_type().name == 'bool' and not x.is_open():
                    with global_setting(unicode=False, highlight=False):
                        s = printer.print_term(x)
                    if s not in out:
                        out.append(s)
            except Exception:
                pass
            if x.is_comb():
                rec(x.fun)
                rec(x.arg)
            elif x.is_abs():
                rec(x.body)
        rec(t)
        return out

    def apply(self, state, ev):
        """apply the event in place; raises whatever the method raises"""
        from server import method
        step = dict(ev[1])
        method.apply_method(state, step)
        state.check_proof(compute_only=True)

    # ------------------------------------------------------------------ invariants
    def invariants(self, state, init_th, hist_desc):
        """C13 invariants; returns None or (kind, message)"""
        from kernel import theory
        from kernel.proof import ItemID
        from server import server
        from logic import context
        # 1. full re-check
        try:
            res = state.check_proof()
        except Exception as e:
            return ('recheck-fails', 'a full re-check of the state fails with %s: %s' % (type(e).__name__, str(getattr(e, 'str', e))[:200]))
        gaps = [th for _, th in self.gaps(state)]
        rg = list(state.rpt.gaps)
        if sorted(map(str, rg)) != sorted(map(str, gaps)):
            return ('gaps-differ', 'reported gaps %s differ from the placeholders present %s' % (sorted(map(str, rg)), sorted(map(str, gaps))))
        # 2. goal preserved
        last = state.prf.items[-1].th
        if last is None or not (last.prop == init_th.prop and set(last.hyps) == set(init_th.hyps)):
            return ('goal-changed', 'the last line is %s, the stated goal was %s' % (last, init_th))
        # 3./4. numbering and citations

        def walk(items, prefix):
            for i, it in enumerate(items):
                if it.id.id != prefix + (i,):
                    return 'line at position %s carries the id %s' % ('.'.join(map(str, prefix + (i,))), it.id)
                for p in it.prevs:
                    if not it.id.can_depend_on(p):
                        return 'line %s cites %s, which is not an earlier visible line' % (it.id, p)
                    try:
                        tgt = state.prf.find_item(p)
                    except Exception:
                        return 'line %s cites the non-existent line %s' % (it.id, p)
                    if tgt.th is None:
                        return 'line %s cites the empty line %s' % (it.id, p)
                if it.subproof:
                    r = walk(it.subproof.items, prefix + (i,))
                    if r:
                        return r
            return None
        msg = walk(state.prf.items, ())
        if msg:
            return ('numbering', msg)
        # 5. finished proofs are accepted with gaps disallowed
        if not gaps:
            try:
                c2 = copy.copy(state)
                c2.check_proof(no_gaps=True)
            except Exception as e:
                return ('nogaps-rejects', 'no gap is left but check_proof(no_gaps=True) fails with %s: %s' % (type(e).__name__, str(getattr(e, 'str', e))[:200]))
        # 6. export / re-import
        from syntax.settings import global_setting
        saved_vars = dict(context.ctxt.vars)
        try:
            with global_setting(unicode=True, highlight=False):
                exported = state.export_proof()
            try:
                st2 = server.parse_proof(json.loads(json.dumps(exported)))
                with global_setting(unicode=True, highlight=False):
                    exported2 = st2.export_proof()
                res2 = st2.check_proof()
            except Exception as e:
                return ('reimport-fails', 're-importing the exported proof fails with %s: %s' % (type(e).__name__, str(getattr(e, 'str', e))[:200]))
            if exported2 != exported:
                for a, b in zip(exported, exported2):
                    if a != b:
                        return ('reimport-differs', 'the exported line %r is re-imported as %r' % (a, b))
                return ('reimport-differs', 'the re-imported proof has %d lines instead of %d' % (len(exported2), len(exported)))
            if not (res2.prop == res.prop and set(res2.hyps) == set(res.hyps)) or sorted(map(str, st2.rpt.gaps)) != sorted(map(str, rg)):
                return ('reimport-result', 'the re-imported proof checks to %s with gaps %s instead of %s with gaps %s' % (res2, st2.rpt.gaps, res, rg))
        finally:
            context.ctxt.vars.clear()
            context.ctxt.vars.update(saved_vars)
        return None

    def judge_suggestion(self, state, ev, new_state):
        """C14: the applied suggestion does what it advertised; returns None or (kind, message)"""
        step, adv = ev[1], ev[2]
        old_gaps = [str(th) for _, th in self.gaps(state)]
        new_gaps = [(i, th) for i, th in self.gaps(new_state)]
        # remove (multiset) the gaps that existed before, except the goal itself
        goal_th = None
        for i, th in self.gaps(state):
            if i == step['goal_id']:
                goal_th = th
        remaining = list(old_gaps)
        if goal_th is not None and str(goal_th) in remaining:
            remaining.remove(str(goal_th))
        fresh = []
        for i, th in new_gaps:
            if str(th) in remaining:
                remaining.remove(str(th))
            else:
                fresh.append(th)
        if adv.get('_goal') is not None:
            advertised = list(adv['_goal'])
            for th in fresh:
                if not any(th.prop == g for g in advertised):
                    return ('unadvertised-goal', 'suggestion %s advertised the subgoals %s but leaves the open goal %s' % (
                        self.show_step(step), [str(g) for g in advertised], th))
            if len(advertised) == 0 and fresh:
                return ('not-solving', 'suggestion %s was advertised as solving but leaves %s' % (self.show_step(step), [str(t) for t in fresh]))
        if adv.get('_fact'):
            props = []

            def rec(items):
                for it in items:
                    if it.th is not None and it.rule != 'sorry':
                        props.append(it.th.prop)
                    if it.subproof:
                        rec(it.subproof.items)
            rec(new_state.prf.items)
            for f in adv['_fact']:
                if not any(f == p for p in props):
                    return ('fact-missing', 'suggestion %s advertised the new fact %s, which is not a proved line afterwards' % (self.show_step(step), f))
        return None

    def show_step(self, step):
        return json.dumps({k: (v if isinstance(v, (str, list, int)) else str(v)) for k, v in step.items()}, default=str)


def viol(prop, kind, case, what):
    return Outcome(kind.upper(), violation={'signature': kind + ':' + json.dumps(case, default=str)[:1500], 'what': what})


def explore_goal(h, goal, tier, agg, prop_id, profile='wide'):
    """BFS from the initial state of one goal"""
    from kernel import theory
    from kernel.theory import ParameterQueryException
    b = bounds(tier)
    try:
        s0 = h.init_state(goal)
    except Exception as e:
        agg.add(['goal', goal[2]], Outcome('goal-not-parsable'))
        return
    init_th = s0.prf.items[-1].th
    init_th = type(init_th)(init_th.prop, *init_th.hyps)
    seen = {h.canon(s0): []}
    frontier = [[]]

    def build(hist):
        s = h.init_state(goal)
        for ev in hist:
            h.apply(s, ev)
        return s

    def desc(hist):
        return [h.show_step(e[1]) if e[0] in ('suggest', 'suggest-filled', 'param') else list(e) for e in hist]
    depth = 0
    while frontier and depth < b['depth'][profile]:
        depth += 1
        nxt = []
        for hist in frontier:
            try:
                s = build(hist)         # live replay
            except Exception as e:
                agg.add([goal[2], desc(hist)], viol(prop_id, 'replay-diverges', [goal[2], desc(hist)],
                                                    'replaying the history %r on a fresh state fails with %s although it succeeded on copies' % (desc(hist), e)))
                continue
            before = (h.canon(s))
            for ev in h.events(s, profile):
                agg.transitions += 1
                if ev[0] == 'search-raises':
                    if h.mode == 'C14':
                        agg.add([goal[2], desc(hist), list(ev)], viol(prop_id, 'search-raises', [goal[2], desc(hist), list(ev[1:3])],
                                                                      'search_method(%s, %s) raises %s in the state reached by %r' % (ev[1], ev[2], ev[3], desc(hist))))
                    continue
                c = copy.copy(s)
                case = [goal[2], desc(hist), h.show_step(ev[1])]
                try:
                    h.apply(c, ev)
                except ParameterQueryException:
                    agg.add(case, Outcome('asks-parameters'))
                    continue
                except Exception as e:
                    if ev[0] == 'suggest-filled':
                        agg.add(case, Outcome('filled-variant-fails'))
                    elif ev[0] == 'suggest' and h.mode == 'C14':
                        from server import method
                        sig = method.global_methods[ev[1]['method_name']].sig
                        open_params = [p for p in sig if p not in ev[1]]
                        if not open_params:
                            agg.add(case, viol(prop_id, 'suggestion-fails', case, 'in the state reached by %r the suggestion %s fails outright with %s: %s' % (
                                desc(hist), h.show_step(ev[1]), type(e).__name__, str(getattr(e, 'str', e))[:200])))
                        else:
                            agg.add(case, Outcome('suggestion-open-parameters'))
                    else:
                        agg.add(case, Outcome('event-raises'))
                    continue
                # copy isolation
                if h.canon(s) != before:
                    agg.add(case, viol(prop_id, 'copy-not-isolated', case, 'applying %s to a copy changed the original state (history %r)' % (h.show_step(ev[1]), desc(hist))))
                    s = build(hist)
                    continue
                bad = None
                if h.mode == 'C13' or ev[0] in ('suggest', 'suggest-filled'):
                    bad = h.invariants(c, init_th, desc(hist))
                if bad is None and h.mode == 'C14' and ev[0] in ('suggest', 'suggest-filled'):
                    bad = h.judge_suggestion(s, ev, c)
                if bad is not None:
                    if h.mode == 'C14' and ev[0] not in ('suggest', 'suggest-filled'):
                        bad = None
                if bad is not None:
                    agg.add(case, viol(prop_id, bad[0], case, 'goal %r, history %r, then %s: %s' % (goal[2], desc(hist), h.show_step(ev[1]), bad[1])))
                    continue
                key = h.canon(c)
                if key in seen:
                    agg.add(None, Outcome('merged'))
                    continue
                if len(seen) >= b['state_cap_per_goal'][profile]:
                    agg.extra.setdefault('cap_hit', {})['%s / %s' % (goal[2], profile)] = 'state cap reached at depth %d' % depth
                    agg.add(None, Outcome('beyond-cap'))
                    continue
                seen[key] = hist + [ev]
                agg.states += 1
                need = len(agg.samples.get('state-ok', ())) < 2
                agg.add(case if need else None, Outcome('state-ok', True))
                nxt.append(hist + [ev])
        frontier = nxt


def library_items(tier):
    import os
    from mc.engine import REPO
    names = ['logic_base', 'logic'] if tier == 'quick' else ['logic_base', 'logic', 'set']
    out = []
    for nm in names:
        data = json.load(open(os.path.join(REPO, 'library', nm + '.json'), encoding='utf-8'))
        for it in data['content']:
            if it.get('ty') == 'thm' and it.get('steps'):
                out.append((nm, it))
    return out


def explore_library_item(h, nm, it, agg, prop_id):
    """every prefix of the recorded steps of one library proof"""
    from logic import context, basic
    from server import server, method
    from kernel.theory import ParameterQueryException
    try:
        # as server.monitor does: the theory up to and including the statement of the item itself
        from server import items
        basic.load_theory(nm, limit=('thm', it['name']))
        from kernel import theory
        parsed = items.parse_item(it)
        if parsed.error is None:
            theory.thy.unchecked_extend(parsed.get_extension())
        context.set_context(None, vars=it['vars'])
        state = server.parse_init_state(it['prop'])
    except Exception:
        agg.add(['lib', nm, it['name']], Outcome('lib-init-fails'))
        return
    init_th = state.prf.items[-1].th
    for k, step in enumerate(it['steps']):
        case = ['lib', nm, it['name'], k]
        agg.transitions += 1
        if h.mode == 'C14':
            # a suggestion can only be judged in a state that is itself checkable (C13 reports the prefix that is not)
            try:
                copy.copy(state).check_proof()
            except Exception:
                agg.add(case, Outcome('lib-prefix-not-checkable'))
                return
            # every suggestion for the selection of the recorded step
            try:
                res = state.search_method(step['goal_id'], step.get('fact_ids', []))
            except Exception as e:
                agg.add(case, viol(prop_id, 'search-raises', case, 'library proof %s/%s: search_method raises %s before step %d' % (nm, it['name'], e, k)))
                res = []
            for r in res:
                st = {kk: v for kk, v in r.items() if not kk.startswith('_') and kk != 'display'}
                ev = ('suggest', st, {'_goal': r.get('_goal'), '_fact': r.get('_fact')})
                c = copy.copy(state)
                try:
                    h.apply(c, ev)
                except ParameterQueryException:
                    continue
                except Exception as e:
                    sig = method.global_methods[st['method_name']].sig
                    if not [p for p in sig if p not in st]:
                        agg.add(case, viol(prop_id, 'suggestion-fails', case + [h.show_step(st)], 'library proof %s/%s after %d recorded steps: suggestion %s fails outright with %s: %s' % (
                            nm, it['name'], k, h.show_step(st), type(e).__name__, str(getattr(e, 'str', e))[:200])))
                    continue
                bad = h.judge_suggestion(state, ev, c)
                if bad is None:
                    try:
                        c.check_proof()
                    except Exception as e:
                        bad = ('recheck-fails', 'full re-check after the suggestion fails: %s' % str(getattr(e, 'str', e))[:200])
                if bad:
                    agg.add(case, viol(prop_id, bad[0], case + [h.show_step(st)], 'library proof %s/%s after %d recorded steps: %s' % (nm, it['name'], k, bad[1])))
                else:
                    agg.add(None, Outcome('lib-suggestion-ok', True))
        try:
            method.apply_method(state, step)
            state.check_proof(compute_only=True)
        except Exception:
            agg.add(case, Outcome('lib-step-raises'))
            return
        if h.mode == 'C13':
            bad = h.invariants(state, init_th, case)
            if bad:
                agg.add(case, viol(prop_id, bad[0], case, 'library proof %s/%s after %d recorded steps: %s' % (nm, it['name'], k + 1, bad[1])))
                return
            agg.states += 1
            agg.add(case if len(agg.samples.get('lib-prefix-ok', ())) < 2 else None, Outcome('lib-prefix-ok', True))


def explore(tier, shard, nshards, agg, prop_id):
    from prover import z3wrapper
    z3wrapper.check_z3 = False
    h = Harness(prop_id)
    units = [(g, pr) for pr in ('narrow', 'wide') for g in GOALS]
    for i, (goal, pr) in enumerate(units):
        if i % nshards != shard:
            continue
        explore_goal(h, goal, tier, agg, prop_id, pr)
    for i, (nm, it) in enumerate(library_items(tier)):
        if i % nshards != shard:
            continue
        explore_library_item(h, nm, it, agg, prop_id)


def replay(case, mode):
    """re-execute one recorded history without the explorer: case = [goal text, [step json, ...], last step json]
    (library cases: ['lib', theory, item, k] are replayed by explore_library_item up to step k)"""
    from mc.engine import Agg
    h = Harness(mode)
    if case and case[0] == 'lib':
        agg = Agg()
        its = [(nm, it) for nm, it in library_items('thorough') if nm == case[1] and it['name'] == case[2]]
        for nm, it in its:
            explore_library_item(h, nm, it, agg, mode)
        for v in agg.violations:
            print(json.dumps(v['violation'], indent=1)[:3000])
        return 1 if agg.violations else 0
    goal = [g for g in GOALS if g[2] == case[0]]
    if not goal:
        print('unknown goal', case[0])
        return 2
    s = h.init_state(goal[0])
    init_th = s.prf.items[-1].th
    init_th = type(init_th)(init_th.prop, *init_th.hyps)
    steps = list(case[1]) + [case[2]]
    for i, st in enumerate(steps):
        step = json.loads(st) if isinstance(st, str) else st
        print('step %d: %s' % (i + 1, json.dumps(step)))
        try:
            h.apply(s, ('param', step))
        except Exception as e:
            print('   raises %s: %s' % (type(e).__name__, str(e)[:300]))
            return 0 if i < len(steps) - 1 else 1
        print(h.export(s) if hasattr(h, 'export') else s)
    bad = h.invariants(s, init_th, steps)
    print('invariants:', bad)
    return 1 if bad else 0
